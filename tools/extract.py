#!/usr/bin/env python3
"""Regenerate GlonaxModel/Generated/Consts.lean from /repo's current working tree.

Every item is located by declaration (named const, enum discriminant, match table) or by an
anchored pattern inside a named function.  If an item cannot be found the extractor FAILS
(exit 2, message on stderr): it never substitutes a default.  The output file is rewritten only
when its content changes so that lake does not rebuild needlessly.
"""
import os, re, sys

REPO = os.environ.get("GLONAX_REPO", "/repo")
OUT = os.path.join(os.path.dirname(os.path.abspath(__file__)), "..", "lean", "GlonaxModel", "Generated", "Consts.lean")


class ExtractError(Exception):
    pass


_cache = {}


def src(rel):
    if rel not in _cache:
        p = os.path.join(REPO, rel)
        try:
            with open(p, encoding="utf-8") as f:
                _cache[rel] = f.read()
        except OSError as e:
            raise ExtractError(f"{rel}: cannot read ({e})")
    return _cache[rel]


def num(tok):
    tok = tok.strip().replace("_", "")
    tok = re.sub(r"(u8|u16|u32|u64|usize|i8|i16|i32|i64|isize)$", "", tok)
    if tok.startswith("0x") or tok.startswith("0X"):
        return int(tok, 16)
    if tok.startswith("0b"):
        return int(tok, 2)
    return int(tok)


def one(rel, pattern, what, flags=re.S):
    m = re.search(pattern, src(rel), flags)
    if not m:
        raise ExtractError(f"{rel}: cannot find {what} (pattern {pattern!r})")
    return m


def body_of(rel, anchor, what):
    """Text of the brace block following the first match of `anchor` (a regex)."""
    s = src(rel)
    m = re.search(anchor, s, re.S)
    if not m:
        raise ExtractError(f"{rel}: cannot find {what} (anchor {anchor!r})")
    i = s.find("{", m.end() - 1)
    if i < 0:
        raise ExtractError(f"{rel}: no block after {what}")
    depth, j = 0, i
    while j < len(s):
        c = s[j]
        if c == "{":
            depth += 1
        elif c == "}":
            depth -= 1
            if depth == 0:
                return s[i : j + 1]
        j += 1
    raise ExtractError(f"{rel}: unbalanced block after {what}")


def enum_discriminants(rel, enum):
    """[(Variant, value)] of `enum Name { A = 1, ... }` (explicit discriminants only)."""
    b = body_of(rel, r"\benum\s+" + enum + r"\b[^{;]*\{", f"enum {enum}")
    b = re.sub(r"//[^\n]*", "", b)
    out = []
    for m in re.finditer(r"\b([A-Z][A-Za-z0-9]*)\s*=\s*([0-9a-fA-Fxb_]+)\s*,?", b):
        out.append((m.group(1), num(m.group(2))))
    if not out:
        raise ExtractError(f"{rel}: enum {enum} has no explicit discriminants")
    return out


def enum_variants(rel, enum):
    b = body_of(rel, r"\benum\s+" + enum + r"\b[^{;]*\{", f"enum {enum}")
    b = re.sub(r"//[^\n]*", "", b)
    b = re.sub(r"#\[[^\]]*\]", "", b)
    return [m.group(1) for m in re.finditer(r"\b([A-Z][A-Za-z0-9]*)\s*(?:\([^)]*\)|\{[^}]*\})?\s*(?:=\s*[0-9a-fA-Fxb_]+)?\s*,", b[1:-1] + ",")]


def const(rel, name):
    m = one(rel, r"\bconst\s+" + name + r"\s*:\s*[A-Za-z0-9_<>:]+\s*=\s*([0-9a-fA-Fxb_]+(?:u8|u16|u32|usize)?)\s*;", f"const {name}")
    return num(m.group(1))


def message_type(rel, ty):
    b = body_of(rel, r"impl\s+(?:crate::protocol::)?Packetize\s+for\s+" + ty + r"\b", f"Packetize for {ty}")
    m = re.search(r"const\s+MESSAGE_TYPE\s*:\s*u8\s*=\s*([0-9a-fA-Fx_]+)\s*;", b)
    if not m:
        raise ExtractError(f"{rel}: MESSAGE_TYPE of {ty}")
    t = num(m.group(1))
    m = re.search(r"const\s+MESSAGE_SIZE\s*:\s*Option<usize>\s*=\s*(None|Some\(([^)]*)\))\s*;", b)
    if not m:
        # default from the trait: None
        size = None
    elif m.group(1) == "None":
        size = None
    else:
        size = m.group(2).strip()
    return t, size


items = []  # (lean name, lean type, lean value, comment)


def add(name, value, comment="", ty="Nat"):
    items.append((name, ty, str(value), comment))


def lower1(s):
    return s[0].lower() + s[1:]


def extract():
    # ---- core/engine.rs : EngineState discriminants -------------------------------------------
    for v, n in enum_discriminants("glonax-runtime/src/core/engine.rs", "EngineState"):
        add(f"engineState{v}", n, "core/engine.rs enum EngineState")
    # ---- driver/net/volvo_ems.rs : governor parameters and state codes ------------------------
    b = body_of("glonax-runtime/src/driver/net/volvo_ems.rs", r"impl\s+VolvoD7E\s*\{", "impl VolvoD7E")
    m = re.search(r"Governor::new\(\s*([0-9_]+)\s*,\s*([0-9_]+)\s*,\s*Duration::from_millis\(\s*([0-9_]+)\s*\)\s*\)", b)
    if not m:
        raise ExtractError("volvo_ems.rs: Governor::new(idle, max, Duration::from_millis(t)) in VolvoD7E::new")
    add("volvoRpmIdle", num(m.group(1)), "VolvoD7E::new Governor::new arg 1")
    add("volvoRpmMax", num(m.group(2)), "VolvoD7E::new Governor::new arg 2")
    add("volvoTimeoutMs", num(m.group(3)), "VolvoD7E::new Governor::new arg 3")
    for v, n in enum_discriminants("glonax-runtime/src/driver/net/volvo_ems.rs", "VolvoEngineState"):
        add(f"volvoState{v}", n, "volvo_ems.rs enum VolvoEngineState")
    m = re.search(r"PGN::ProprietaryB\(\s*([0-9_]+)\s*\)\s*\)\s*\.priority\(\s*([0-9]+)\s*\)", b, re.S)
    if not m:
        raise ExtractError("volvo_ems.rs: speed_control PGN/priority")
    add("volvoSpeedPgn", num(m.group(1)), "VolvoD7E::speed_control PGN")
    add("volvoSpeedPriority", num(m.group(2)), "VolvoD7E::speed_control priority")


HOOKS = []

def extract_hcu():
    f = "glonax-runtime/src/driver/net/hydraulic.rs"
    add("hcuStatusPgn", const(f, "STATUS_PGN"), "hydraulic.rs STATUS_PGN")
    m = one(f, r"const\s+BANK_PGN_LIST\s*:\s*\[PGN;\s*2\]\s*=\s*\[\s*PGN::Other\(([0-9_]+)\)\s*,\s*PGN::Other\(([0-9_]+)\)\s*\]", "BANK_PGN_LIST")
    add("hcuBankPgn0", num(m.group(1)), "hydraulic.rs BANK_PGN_LIST[0]")
    add("hcuBankPgn1", num(m.group(2)), "hydraulic.rs BANK_PGN_LIST[1]")
    add("hcuBankSlots", const(f, "BANK_SLOTS"), "hydraulic.rs BANK_SLOTS")
    # ActuatorMessage::to_frame priority and MotionConfigMessage::to_frame PGN / priority
    b = body_of(f, r"impl\s+ActuatorMessage\s*\{", "impl ActuatorMessage")
    m = re.search(r"fn\s+to_frame.*?\.priority\(\s*([0-9]+)\s*\)", b, re.S)
    if not m:
        raise ExtractError("hydraulic.rs: ActuatorMessage::to_frame priority")
    add("hcuActuatorPriority", num(m.group(1)), "ActuatorMessage::to_frame priority")
    b = body_of(f, r"impl\s+MotionConfigMessage\s*\{", "impl MotionConfigMessage")
    m = re.search(r"fn\s+to_frame.*?IdBuilder::from_pgn\(PGN::(\w+)\)\s*\.priority\(\s*([0-9]+)\s*\)", b, re.S)
    if not m:
        raise ExtractError("hydraulic.rs: MotionConfigMessage::to_frame pgn/priority")
    add("hcuMotionConfigPgn", pgn_number(m.group(1)), "MotionConfigMessage::to_frame PGN::" + m.group(1))
    add("hcuMotionConfigPriority", num(m.group(2)), "MotionConfigMessage::to_frame priority")
    # Actuator discriminants
    for v, n in enum_discriminants("glonax-runtime/src/core/motion.rs", "Actuator"):
        add(f"actuator{v}", n, "core/motion.rs enum Actuator")
    for name in ["MOTION_TYPE_STOP_ALL", "MOTION_TYPE_RESUME_ALL", "MOTION_TYPE_RESET_ALL", "MOTION_TYPE_STRAIGHT_DRIVE", "MOTION_TYPE_CHANGE", "MOTION_MAX_CHANGE_SET_COUNT"]:
        add(camel(name), const("glonax-runtime/src/core/motion.rs", name), "core/motion.rs " + name)
    # vecraft state bytes (State::to_byte)
    b = body_of("glonax-runtime/src/driver/net/vecraft.rs", r"pub\s+fn\s+to_byte\(self\)\s*->\s*u8", "vecraft State::to_byte")
    for m in re.finditer(r"State::(\w+)\s*=>\s*(0x[0-9a-fA-F]+|[0-9]+)", b):
        add("vecraftState" + m.group(1), num(m.group(2)), "vecraft.rs State::to_byte")


def camel(name):
    parts = name.lower().split("_")
    return parts[0] + "".join(p.capitalize() for p in parts[1:])


_PGN_TABLE = None


def pgn_number(variant):
    """Number of a named j1939::PGN variant, read from the j1939 crate source in the cargo registry
    (vendored dependency, not part of /repo; version pinned by Cargo.lock)."""
    global _PGN_TABLE
    if _PGN_TABLE is None:
        import glob
        cands = sorted(glob.glob(os.path.expanduser("~/.cargo/registry/src/*/j1939-0.1.*/src/pgn.rs")))
        if not cands:
            raise ExtractError("j1939 crate source not found in the cargo registry")
        t = open(cands[-1], encoding="utf-8").read()
        _PGN_TABLE = {m.group(1): num(m.group(2)) for m in re.finditer(r"PGN::(\w+)\s*=>\s*([0-9_]+)\s*,", t)}
    if variant not in _PGN_TABLE:
        raise ExtractError(f"PGN::{variant} not in the j1939 crate table")
    return _PGN_TABLE[variant]


HOOKS.append(extract_hcu)

def eval_size(expr):
    e = expr
    for ty, n in (("f32", 4), ("u8", 1), ("i8", 1), ("u16", 2), ("i16", 2), ("u32", 4), ("i32", 4), ("u64", 8), ("f64", 8)):
        e = e.replace(f"std::mem::size_of::<{ty}>()", str(n))
    if not re.fullmatch(r"[0-9+*() ]+", e):
        raise ExtractError(f"cannot evaluate MESSAGE_SIZE expression {expr!r}")
    return int(eval(e))


def match_table(rel, anchor, what):
    """[(lhs number, Variant)] of `lit => Ok(X::Variant)` / `lit => Some(..Variant)` arms in the block after anchor."""
    b = body_of(rel, anchor, what)
    out = []
    for m in re.finditer(r"(0x[0-9a-fA-F]+|[0-9]+)\s*=>\s*(?:Ok|Some)\(\s*(?:[A-Za-z0-9_]+::)*([A-Z][A-Za-z0-9]*)", b):
        out.append((num(m.group(1)), m.group(2)))
    if not out:
        raise ExtractError(f"{rel}: no match arms found for {what}")
    return out


def extract_wire():
    base = "glonax-runtime/src/"
    pm = base + "protocol/mod.rs"
    m = one(pm, r"const\s+PROTO_HEADER\s*:\s*\[u8;\s*3\]\s*=\s*\[\s*b'(.)'\s*,\s*b'(.)'\s*,\s*b'(.)'\s*\]", "PROTO_HEADER")
    add("protoHeader", "[%d, %d, %d]" % tuple(ord(m.group(i)) for i in (1, 2, 3)), "protocol/mod.rs PROTO_HEADER", ty="List Nat")
    add("protoVersion", const(pm, "PROTO_VERSION"), "protocol/mod.rs PROTO_VERSION")
    add("maxPayloadSize", const(pm, "MAX_PAYLOAD_SIZE"), "protocol/mod.rs MAX_PAYLOAD_SIZE")
    m = one(pm, r"const\s+PROTO_BUFFER_SIZE\s*:\s*usize\s*=\s*PROTO_HEADER\.len\(\)\s*\+\s*std::mem::size_of::<u8>\(\)\s*\+\s*std::mem::size_of::<u8>\(\)\s*\+\s*std::mem::size_of::<u16>\(\)\s*\+\s*([0-9]+)\s*;", "PROTO_BUFFER_SIZE")
    add("protoBufferSize", 3 + 1 + 1 + 2 + num(m.group(1)), "protocol/mod.rs PROTO_BUFFER_SIZE (evaluated)")
    add("protoPadding", num(m.group(1)), "protocol/mod.rs PROTO_BUFFER_SIZE trailing padding bytes")
    # FrameMessage discriminants (Session/Request/Error message types)
    fm = dict(enum_discriminants(base + "protocol/frame.rs", "FrameMessage"))
    types = [
        ("Session", base + "protocol/frame.rs"), ("SessionError", base + "protocol/frame.rs"), ("Request", base + "protocol/frame.rs"),
        ("Engine", base + "core/engine.rs"), ("Motion", base + "core/motion.rs"), ("Control", base + "core/control.rs"),
        ("Target", base + "core/target.rs"), ("Rotator", base + "core/rotation.rs"), ("ModuleStatus", base + "core/status.rs"),
        ("Instance", base + "core/instance.rs"), ("Gnss", base + "core/gnss.rs"), ("Actor", base + "world/mod.rs"),
    ]
    for ty, f in types:
        b = body_of(f, r"impl\s+(?:crate::protocol::|super::)?Packetize\s+for\s+" + ty + r"\b", f"Packetize for {ty}")
        m = re.search(r"const\s+MESSAGE_TYPE\s*:\s*u8\s*=\s*([^;]+);", b)
        if not m:
            raise ExtractError(f"{f}: MESSAGE_TYPE of {ty}")
        e = m.group(1).strip()
        mm = re.fullmatch(r"FrameMessage::(\w+)\s+as\s+u8", e)
        if mm:
            e = e.split("//")[0]
            if mm.group(1) not in fm:
                raise ExtractError(f"FrameMessage::{mm.group(1)} has no discriminant")
            t = fm[mm.group(1)]
        else:
            t = num(e.split("//")[0])
        add(f"msgType{ty}", t, f"{ty}::MESSAGE_TYPE")
        m = re.search(r"const\s+MESSAGE_SIZE\s*:\s*Option<usize>\s*=\s*(None|Some\((.*?)\))\s*;", b, re.S)
        if not m or m.group(1) == "None":
            add(f"msgSize{ty}", "none", f"{ty}::MESSAGE_SIZE (trait default None)", ty="Option Nat")
        else:
            add(f"msgSize{ty}", f"some {eval_size(m.group(2).strip())}", f"{ty}::MESSAGE_SIZE = Some({m.group(2).strip()})", ty="Option Nat")
    # Control type codes
    cf = base + "core/control.rs"
    for m in re.finditer(r"const\s+(CONTROL_TYPE_[A-Z_]+)\s*:\s*u8\s*=\s*(0x[0-9a-fA-F]+|[0-9]+)\s*;", src(cf)):
        add(camel(m.group(1)), num(m.group(2)), "core/control.rs " + m.group(1))
    # Constraint, RotationReference, ModuleState, GnssStatus, MachineType, SessionError
    for v, n in enum_discriminants(base + "core/target.rs", "Constraint"):
        add(f"constraint{v}", n, "core/target.rs enum Constraint")
    for n, v in match_table(base + "core/rotation.rs", r"impl\s+TryFrom<u8>\s+for\s+RotationReference", "RotationReference::try_from"):
        add(f"rotationReference{v}", n, "core/rotation.rs RotationReference::try_from")
    for v, n in enum_discriminants(base + "core/status.rs", "ModuleState"):
        add(f"moduleState{v}", n, "core/status.rs enum ModuleState")
    b = body_of(base + "core/status.rs", r"impl\s+TryFrom<Vec<u8>>\s+for\s+ModuleStatus", "ModuleStatus::try_from")
    for m in re.finditer(r"([0-9]+)\s*=>\s*Some\(ModuleError::(\w+)\)", b):
        add(f"moduleError{m.group(2)}", num(m.group(1)), "core/status.rs ModuleStatus::try_from error code")
    for v, n in enum_discriminants(base + "core/gnss.rs", "GnssStatus"):
        add(f"gnssStatus{v}", n, "core/gnss.rs enum GnssStatus")
    for v, n in enum_discriminants(base + "core/mod.rs", "MachineType"):
        add(f"machineType{v}", n, "core/mod.rs enum MachineType")
    for v, n in enum_discriminants(base + "protocol/frame.rs", "SessionError"):
        add(f"sessionError{v}", n, "protocol/frame.rs enum SessionError")
    b = body_of(base + "protocol/frame.rs", r"impl\s+Session\s*\{", "impl Session")
    for m in re.finditer(r"pub\s+const\s+(MODE_[A-Z]+)\s*:\s*u8\s*=\s*(0b[01_]+|0x[0-9a-fA-F]+|[0-9]+)\s*;", b):
        add("sessionMode" + m.group(1)[5:].capitalize(), num(m.group(2)), "Session::" + m.group(1))
    m = re.search(r"name\.chars\(\)\.take\(\s*([0-9]+)\s*\)", b)
    if not m:
        raise ExtractError("frame.rs: Session::new name truncation")
    add("sessionNameMaxChars", num(m.group(1)), "Session::new name.chars().take(N)")
    b = body_of(base + "protocol/frame.rs", r"impl\s+TryFrom<Vec<u8>>\s+for\s+Session\b", "Session::try_from")
    m = re.search(r"let\s+mask\s*=\s*(0b[01_]+|0x[0-9a-fA-F]+)\s*;", b)
    if not m:
        raise ExtractError("frame.rs: Session::try_from mask")
    add("sessionInvalidFlagMask", num(m.group(1)), "Session::try_from mask")
    # crate version
    m = one("glonax-runtime/Cargo.toml", r'\[package\].*?\nversion\s*=\s*"([0-9]+)\.([0-9]+)\.([0-9]+)"', "package version")
    add("versionMajor", int(m.group(1)), "glonax-runtime/Cargo.toml version major")
    add("versionMinor", int(m.group(2)), "glonax-runtime/Cargo.toml version minor")
    add("versionPatch", int(m.group(3)), "glonax-runtime/Cargo.toml version patch")
    lf = base + "lib.rs"
    add("queueSizeCommand", const(lf, "QUEUE_SIZE_COMMAND"), "lib.rs consts::QUEUE_SIZE_COMMAND")
    add("queueSizeSignal", const(lf, "QUEUE_SIZE_SIGNAL"), "lib.rs consts::QUEUE_SIZE_SIGNAL")


HOOKS.append(extract_wire)

def extract_drivers():
    import glob
    base = "glonax-runtime/src/"
    names = set()
    files = sorted(glob.glob(os.path.join(REPO, base, "driver/net/*.rs"))) + [os.path.join(REPO, base, "service/authority.rs")]
    for f in files:
        rel = os.path.relpath(f, REPO)
        for m in re.finditer(r"PGN::([A-Z][A-Za-z0-9]*)\b(?!\()", src(rel)):
            if m.group(1) not in ("ProprietaryB", "Other"):
                names.add(m.group(1))
    for n in sorted(names):
        add("pgn" + n, pgn_number(n), "j1939::PGN::" + n + " (number from the j1939 crate table)")
    add("vcuStatusPgn", const(base + "driver/net/vcu.rs", "STATUS_PGN"), "vcu.rs STATUS_PGN")
    m = one(base + "driver/net/encoder.rs", r"const\s+ENCODER_PGN\s*:\s*PGN\s*=\s*PGN::ProprietaryB\(([0-9_]+)\)", "ENCODER_PGN")
    add("encoderPgn", num(m.group(1)), "encoder.rs ENCODER_PGN")
    m = one(base + "driver/net/inclino.rs", r"const\s+INCLINOMETER_PGN\s*:\s*PGN\s*=\s*PGN::ProprietaryB\(([0-9_]+)\)", "INCLINOMETER_PGN")
    add("inclinometerPgn", num(m.group(1)), "inclino.rs INCLINOMETER_PGN")
    # encoder state words
    b = body_of(base + "driver/net/encoder.rs", r"message\.state\s*=\s*match\s+state", "encoder state match")
    found = set()
    for m in re.finditer(r"(0x[0-9a-fA-F]+)\s*=>\s*EncoderState::(\w+)", b):
        add("encoderState" + m.group(2), num(m.group(1)), "encoder.rs ProcessDataMessage::from_frame state word")
        found.add(m.group(2))
    need = {"NoError", "GeneralSensorError", "InvalidMUR", "InvalidTMR", "InvalidPreset"}
    if not need <= found:
        raise ExtractError("encoder.rs: state words of %s not found as literal match arms" % sorted(need - found))
    # encoder addresses of KueblerEncoder::new
    b = body_of(base + "driver/net/encoder.rs", r"impl\s+KueblerEncoder\s*\{", "impl KueblerEncoder")
    addrs = [num(x) for x in re.findall(r"da\s*==\s*(0x[0-9a-fA-F]+)", b)]
    if len(addrs) != 4:
        raise ExtractError("encoder.rs: expected four encoder addresses in KueblerEncoder::new, found %r" % addrs)
    add("encoderAddrs", "[%s]" % ", ".join(map(str, addrs)), "KueblerEncoder::new known unit addresses (z-axis, y-axis+60deg, y, y)", ty="List Nat")
    m = re.search(r"([0-9_]+)_f32\.to_radians\(\)", b)
    if not m:
        raise ExtractError("encoder.rs: boom offset degrees")
    add("encoderBoomOffsetDeg", num(m.group(1)), "KueblerEncoder::new offset of the second address, degrees")
    # inclinometer status nibble
    b = body_of(base + "driver/net/inclino.rs", r"message\.status\s*=\s*match\s+frame\.pdu\(\)\[6\]\s*>>\s*4", "inclinometer status match")
    for m in re.finditer(r"(0x[0-9a-fA-F]+)\s*=>\s*InclinometerStatus::(\w+)", b):
        add("inclinoStatus" + m.group(2), num(m.group(1)), "inclino.rs status nibble")
    # director thresholds and authority decimation
    d = base + "service/director.rs"
    b = body_of(d, r"fn\s+elect_engine_state", "elect_engine_state")
    m1 = re.search(r"rpm\s*<\s*([0-9_]+)", b)
    m2 = re.search(r"rpm\s*>\s*([0-9_]+)", b)
    if not (m1 and m2):
        raise ExtractError("director.rs: engine thresholds")
    add("directorRpmInhibit", num(m1.group(1)), "director.rs elect_engine_state: rpm < N => Inhibited")
    add("directorRpmEmergency", num(m2.group(1)), "director.rs elect_engine_state: rpm > N => Emergency")
    a = base + "service/authority.rs"
    m = one(a, r"interval_decimation\(Duration::from_millis\(([0-9_]+)\),\s*self\.tick,\s*([0-9_]+)\)", "interval_decimation call")
    add("statusIntervalMs", num(m.group(1)), "authority.rs on_tick interval_decimation interval")
    add("statusDecimationMs", num(m.group(2)), "authority.rs on_tick interval_decimation decimation")


HOOKS.append(extract_drivers)

def strip_comments(t):
    return re.sub(r"//[^\n]*", "", t)


def match_arms(block):
    """[(pattern text, body text)] of the top-level arms of a `match … { … }` block (text including its braces)."""
    t = block[1:-1]
    arms, i, n = [], 0, len(t)
    start = 0
    depth = 0
    while i < n:
        c = t[i]
        if c in "([{":
            depth += 1
        elif c in ")]}":
            depth -= 1
        elif depth == 0 and t.startswith("=>", i):
            pat = t[start:i].strip()
            j = i + 2
            while j < n and t[j].isspace():
                j += 1
            if j < n and t[j] == "{":
                d, k = 0, j
                while k < n:
                    if t[k] == "{":
                        d += 1
                    elif t[k] == "}":
                        d -= 1
                        if d == 0:
                            break
                    k += 1
                body = t[j : k + 1]
                k += 1
                while k < n and (t[k].isspace() or t[k] == ","):
                    k += 1
            else:
                d, k = 0, j
                while k < n:
                    if t[k] in "([{":
                        d += 1
                    elif t[k] in ")]}":
                        d -= 1
                    elif t[k] == "," and d == 0:
                        break
                    k += 1
                body = t[j:k]
                k += 1
            arms.append((pat, body))
            i = k
            start = k
            continue
        i += 1
    return arms


SRC_GUARD = r"if\s+frame\.id\(\)\.source_address\(\)\s*!=\s*self\.destination_address\s*\{\s*return\s+None\s*;?\s*\}"
DA_GUARD = (r"if\s+let\s+Some\(destination_address\)\s*=\s*frame\.id\(\)\.destination_address\(\)\s*\{\s*"
            r"if\s+destination_address\s*!=\s*self\.destination_address\s*&&\s*destination_address\s*!=\s*0xff\s*\{\s*return\s+None\s*;?\s*\}\s*\}")


def extract_parse_tables():
    """The parse function of every unit driver as a table: which parameter groups it has an arm for, and whether that arm
    (or the function before its match) returns None for a frame whose source address is not the unit's."""
    base = "glonax-runtime/src/driver/net/"
    for fname, ty, lean in [("engine.rs", "EngineManagementSystem", "Engine"), ("hydraulic.rs", "HydraulicControlUnit", "Hydraulic"),
                            ("vcu.rs", "VehicleControlUnit", "Vcu"), ("encoder.rs", "KueblerEncoder", "Encoder"),
                            ("inclino.rs", "KueblerInclinometer", "Inclino"), ("ecu.rs", "ElectronicControlUnit", "Ecu")]:
        rel = base + fname
        imp = body_of(rel, r"impl\s+Parsable<\w+>\s+for\s+" + ty + r"\b", f"impl Parsable for {ty}")
        imp = strip_comments(imp)
        m = re.search(r"fn\s+parse\s*\(\s*&self\s*,\s*frame\s*:\s*&Frame\s*\)[^{]*\{", imp)
        if not m:
            raise ExtractError(f"{rel}: fn parse(&self, frame: &Frame) of {ty}")
        mm = re.search(r"match\s+frame\.id\(\)\.pgn\(\)\s*\{", imp[m.end():])
        if not mm:
            raise ExtractError(f"{rel}: `match frame.id().pgn()` in {ty}::parse")
        prefix = imp[m.end(): m.end() + mm.start()]
        # the match block
        k = m.end() + mm.end() - 1
        d, j = 0, k
        while j < len(imp):
            if imp[j] == "{":
                d += 1
            elif imp[j] == "}":
                d -= 1
                if d == 0:
                    break
            j += 1
        block = imp[k: j + 1]
        da_guard = re.search(DA_GUARD, prefix) is not None
        hoisted = re.search(SRC_GUARD, prefix) is not None
        rows = []
        for pat, body in match_arms(block):
            for alt in [a.strip() for a in pat.split("|")]:
                if alt == "_":
                    continue
                m1 = re.fullmatch(r"PGN::(?:ProprietaryB|Other)\(\s*([0-9_]+|[A-Z_][A-Z0-9_]*)\s*\)", alt)
                m2 = re.fullmatch(r"PGN::([A-Z][A-Za-z0-9]*)", alt)
                m3 = re.fullmatch(r"[A-Z_][A-Z0-9_]*", alt)
                if m1:
                    g = num(m1.group(1)) if m1.group(1)[0].isdigit() else const(rel, m1.group(1))
                elif m2:
                    g = pgn_number(m2.group(1))
                elif m3:
                    g = num(one(rel, r"const\s+" + alt + r"\s*:\s*PGN\s*=\s*PGN::ProprietaryB\(([0-9_]+)\)", f"const {alt}").group(1))
                else:
                    raise ExtractError(f"{rel}: arm pattern {alt!r} of {ty}::parse is not a parameter group")
                rows.append((g, hoisted or re.search(SRC_GUARD, body) is not None))
        if not rows:
            raise ExtractError(f"{rel}: {ty}::parse has no parameter-group arms")
        add("parseArms" + lean, "[" + ", ".join("(%d, %s)" % (g, "true" if b else "false") for g, b in rows) + "]",
            f"{fname} {ty}::parse: (parameter group, arm refuses frames not sent by the unit's own address)", ty="List (Nat × Bool)")
        add("parseDaGuard" + lean, "true" if da_guard else "false", f"{fname} {ty}::parse starts by refusing frames addressed to another node", ty="Bool")


HOOKS.append(extract_parse_tables)


def extract_responder():
    """The request responder of NetworkAuthority::recv as a table: which requested groups have an arm, and the guard."""
    rel = "glonax-runtime/src/service/authority.rs"
    b = strip_comments(body_of(rel, r"async\s+fn\s+recv\s*\(\s*&mut\s+self\s*,\s*signal_tx", "NetworkAuthority::recv"))
    m = re.search(r"if\s+frame\.id\(\)\.pgn\(\)\s*==\s*j1939::PGN::Request\s*\{", b)
    if not m:
        raise ExtractError(f"{rel}: `if frame.id().pgn() == j1939::PGN::Request` in recv")
    # the block of that `if`
    k = m.end() - 1
    d, j = 0, k
    while j < len(b):
        if b[j] == "{":
            d += 1
        elif b[j] == "}":
            d -= 1
            if d == 0:
                break
        j += 1
    blk = b[k: j + 1]
    mm = re.search(r"match\s+(\w+)\s*\{", blk)
    if not mm:
        raise ExtractError(f"{rel}: match over the requested group in recv")
    var = mm.group(1)
    prefix = blk[:mm.start()]
    guard = re.search(r"if\s+frame\.id\(\)\.destination_address\(\)\s*!=\s*Some\(self\.default_address\)\s*\{\s*return\s*;?\s*\}", prefix) is not None
    if not re.search(r"let\s+" + var + r"\s*=\s*protocol::request_from_pdu\(frame\.pdu\(\)\)\s*;", prefix):
        raise ExtractError(f"{rel}: `let {var} = protocol::request_from_pdu(frame.pdu());` before the match in recv")
    k2 = mm.end() - 1
    d, j = 0, k2
    while j < len(blk):
        if blk[j] == "{":
            d += 1
        elif blk[j] == "}":
            d -= 1
            if d == 0:
                break
        j += 1
    served = []
    for pat, body in match_arms(blk[k2: j + 1]):
        for alt in [a.strip() for a in pat.split("|")]:
            if alt == "_":
                if body.strip() not in ("()", "{}", "{ }"):
                    raise ExtractError(f"{rel}: the catch-all arm of the request responder is not empty: {body.strip()[:60]!r}")
                continue
            m2 = re.fullmatch(r"(?:j1939::)?PGN::([A-Z][A-Za-z0-9]*)", alt)
            if not m2:
                raise ExtractError(f"{rel}: responder arm {alt!r} is not a named parameter group")
            served.append(pgn_number(m2.group(1)))
    if not served:
        raise ExtractError(f"{rel}: the request responder has no arms")
    add("servedRequestPgns", "[" + ", ".join(map(str, served)) + "]", "authority.rs NetworkAuthority::recv: requested groups with an arm in the responder", ty="List Nat")
    add("requestOwnAddressGuard", "true" if guard else "false", "authority.rs NetworkAuthority::recv: requests not addressed to the own address return before the responder", ty="Bool")


HOOKS.append(extract_responder)


ERROR_KINDS = {"UnexpectedEof": 1, "ConnectionReset": 2, "TimedOut": 3, "ConnectionAborted": 4, "BrokenPipe": 5, "InvalidData": 6,
               "InvalidInput": 7, "WouldBlock": 8, "Interrupted": 9, "NotConnected": 10, "Other": 11}


def brace_block(text, i):
    """the balanced `{…}` block that starts at index i of text"""
    d, j = 0, i
    while j < len(text):
        if text[j] == "{":
            d += 1
        elif text[j] == "}":
            d -= 1
            if d == 0:
                return text[i: j + 1]
        j += 1
    raise ExtractError("unbalanced block")


def extract_server():
    """The shape of the client session in service/server.rs: the message types `parse` has an arm for (each reading its
    payload with recv_packet of its own type, the catch-all draining it), the error kinds that end the session loop, that
    nothing returns out of the session function before the fail-safe block, and that block itself."""
    rel = "glonax-runtime/src/service/server.rs"
    types = {}
    for it in items:
        if it[0].startswith("msgType"):
            types[it[0][len("msgType"):]] = int(it[2])
    b = strip_comments(body_of(rel, r"async\s+fn\s+parse\s*<", "UnixServer::parse"))
    m = re.search(r"match\s+frame\.message\s*\{", b)
    if not m:
        raise ExtractError(f"{rel}: `match frame.message` in parse")
    arms = match_arms(brace_block(b, m.end() - 1))
    served, reads, skips = [], True, False
    for pat, body in arms:
        for alt in [a.strip() for a in pat.split("|")]:
            if alt == "_":
                skips = re.search(r"\.skip_payload\(\s*frame\.payload_length\s*\)", body) is not None
                continue
            mm = re.fullmatch(r"(?:[A-Za-z_:]+::)?([A-Z][A-Za-z0-9]*)::MESSAGE_TYPE", alt)
            if not mm or mm.group(1) not in types:
                raise ExtractError(f"{rel}: parse arm {alt!r} is not a known message type")
            ty = mm.group(1)
            served.append(types[ty])
            if not re.search(r"\.recv_packet::<\s*(?:[A-Za-z_:]+::)?" + ty + r"\s*>\(\s*frame\.payload_length\s*\)", body):
                reads = False
    if not served:
        raise ExtractError(f"{rel}: parse has no message-type arms")
    add("serverArmTypes", "[" + ", ".join(map(str, served)) + "]", "server.rs UnixServer::parse: message types with an arm", ty="List Nat")
    add("serverArmsReadOwnPayload", "true" if reads else "false", "server.rs parse: every arm reads its payload with recv_packet::<its own type>(frame.payload_length)", ty="Bool")
    add("serverCatchAllDrains", "true" if skips else "false", "server.rs parse: the catch-all arm drains the payload with skip_payload(frame.payload_length)", ty="Bool")
    # --- the session function
    f = strip_comments(body_of(rel, r"async\s+fn\s+spawn_client_session\s*<", "spawn_client_session"))
    ml = re.search(r"\bloop\s*\{", f)
    if not ml:
        raise ExtractError(f"{rel}: session loop")
    loop = brace_block(f, ml.end() - 1)
    after = f[ml.end() - 1 + len(loop):]
    add("sessionReturnsBeforeFailsafe", len(re.findall(r"\breturn\b", f[: ml.end() - 1 + len(loop)])) + len(re.findall(r"\?\s*;", loop)),
        "server.rs spawn_client_session: `return` statements and `?` operators up to the end of the session loop (each would skip the fail-safe block)")
    ok = re.search(r"if\s+session\.is_failsafe\(\)\s*\{", after)
    fs = False
    if ok:
        blk = brace_block(after, ok.end() - 1)
        fs = re.search(r"command_tx\s*\.send\(\s*Object::Motion\(\s*Motion::StopAll\s*\)\s*\)", blk) is not None
    add("sessionFailsafeAfterLoop", "true" if fs else "false", "server.rs spawn_client_session: after the loop, `if session.is_failsafe() { … command_tx.send(Object::Motion(Motion::StopAll)) … }`", ty="Bool")
    ini = re.search(r"let\s+mut\s+session\s*=\s*Session::new\(\s*([^,]+?)\s*,\s*String::new\(\)\s*\)\s*;", f[: ml.start()])
    if not ini:
        raise ExtractError(f"{rel}: the placeholder registration `let mut session = Session::new(…, String::new());` before the loop")
    add("sessionStartsUnregistered", "true" if ini.group(1).strip() in ("0", "0u8", "0x00") else "false",
        "server.rs spawn_client_session: a connection starts with the placeholder registration Session::new(0, …) (no flag set)", ty="Bool")
    mk = re.search(r"match\s+e\.kind\(\)\s*\{", loop)
    if not mk:
        raise ExtractError(f"{rel}: `match e.kind()` in the session loop")
    ends, others_break = [], False
    for pat, body in match_arms(brace_block(loop, mk.end() - 1)):
        brk = re.search(r"\bbreak\b", body) is not None
        for alt in [a.strip() for a in pat.split("|")]:
            if alt == "_":
                others_break = brk
                continue
            mm = re.fullmatch(r"(?:std::)?(?:io::)?ErrorKind::(\w+)", alt)
            if not mm or mm.group(1) not in ERROR_KINDS:
                raise ExtractError(f"{rel}: session loop error arm {alt!r}")
            if brk:
                ends.append(ERROR_KINDS[mm.group(1)])
    add("sessionEndKinds", "[" + ", ".join(map(str, ends)) + "]",
        "server.rs session loop: read-error kinds whose arm leaves the loop (1 UnexpectedEof, 2 ConnectionReset, 3 TimedOut, 4 ConnectionAborted, 5 BrokenPipe, 6 InvalidData, …)", ty="List Nat")
    add("sessionOtherErrorsEnd", "true" if others_break else "false", "server.rs session loop: the catch-all read-error arm leaves the loop", ty="Bool")
    # the signal side: only a CLOSED channel ends the session (a lagging subscriber does not)
    sig = re.search(r"else\s+if\s+let\s+Err\(\s*(?:tokio::sync::broadcast::error::)?RecvError::Closed\s*\)\s*=\s*signal\s*\{", loop)
    only_closed = False
    if sig:
        only_closed = re.search(r"\bbreak\b", brace_block(loop, sig.end() - 1)) is not None
    n_break = len(re.findall(r"\bbreak\b", loop))
    add("sessionSignalClosedEnds", "true" if only_closed else "false", "server.rs session loop: `else if let Err(RecvError::Closed) = signal { … break }`", ty="Bool")
    add("sessionLoopBreaks", n_break, "server.rs session loop: number of `break` statements (one per ending read-error kind + one for the closed signal channel)")


HOOKS.append(extract_server)


def extract_command_task():
    """The command task of Runtime::schedule_net_service: what each outcome of `command_rx.recv()` does."""
    rel = "glonax-runtime/src/runtime/mod.rs"
    f = strip_comments(body_of(rel, r"pub\s+fn\s+schedule_net_service\s*<", "schedule_net_service"))
    m = re.search(r"match\s+command_rx\.recv\(\)\.await\s*\{", f)
    if not m:
        raise ExtractError(f"{rel}: `match command_rx.recv().await` in schedule_net_service")
    ok = lag = closed = None
    for pat, body in match_arms(brace_block(f, m.end() - 1)):
        leaves = re.search(r"\b(break|return)\b", body) is not None
        p1 = re.sub(r"\s+", "", pat)
        if re.fullmatch(r"Ok\((\w+)\)", p1):
            v = re.fullmatch(r"Ok\((\w+)\)", p1).group(1)
            ok = (re.search(r"\.on_command\(\s*&" + v + r"\s*\)\s*\.await", body) is not None) and not leaves
        elif re.fullmatch(r"Err\((?:\w+::)*RecvError::Lagged\(\w+\)\)", p1):
            lag = not leaves
        elif re.fullmatch(r"Err\((?:\w+::)*RecvError::Closed\)", p1):
            closed = leaves
        else:
            raise ExtractError(f"{rel}: unexpected arm {pat.strip()!r} in the command task")
    if ok is None or lag is None or closed is None:
        raise ExtractError(f"{rel}: the command task does not have the three arms Ok / Lagged / Closed")
    add("cmdTaskOkDispatches", "true" if ok else "false", "runtime/mod.rs command task: Ok(object) => on_command(&object).await and stays in the loop", ty="Bool")
    add("cmdTaskLaggedContinues", "true" if lag else "false", "runtime/mod.rs command task: Err(Lagged) stays in the loop", ty="Bool")
    add("cmdTaskClosedLeaves", "true" if closed else "false", "runtime/mod.rs command task: Err(Closed) leaves the loop", ty="Bool")
    g = re.search(r"if\s+self\.shutdown\.1\.is_empty\(\)", f)
    sub = re.search(r"let\s+mut\s+command_rx\s*=\s*self\.command_tx\.subscribe\(\)\s*;", f)
    if not g:
        raise ExtractError(f"{rel}: start-up guard of schedule_net_service")
    add("cmdRxSubscribedAtScheduling", "true" if (sub and sub.start() < g.start()) else "false",
        "runtime/mod.rs schedule_net_service: the command receiver is subscribed in the scheduling call itself (before the guard and the spawns)", ty="Bool")


HOOKS.append(extract_command_task)


def extract_governor_table():
    """TRANSLATOR: Governor::next_state as a decision table, one row per match arm in source order.
    Row = [signal state code | 9 for `_`, command state code | 9, 1 if the arm has an `if` guard,
           1 if the arm starts with the expired-command early return, then for that return: rpm source, reshaped, state code,
           then for the arm's value: rpm source, reshaped, state code]
    rpm source: 0 self.rpm_idle, 1 command.rpm, 2 signal.rpm, 3 self.rpm_max, 7 anything else; absent parts are 0 0 0."""
    rel = "glonax-runtime/src/driver/governor.rs"
    states = dict(enum_discriminants("glonax-runtime/src/core/engine.rs", "EngineState"))
    f = strip_comments(body_of(rel, r"pub\s+fn\s+next_state\s*\(", "Governor::next_state"))
    m = re.search(r"match\s+\(\s*signal\.state\s*,\s*command\.state\s*\)\s*\{", f)
    if not m:
        raise ExtractError(f"{rel}: `match (signal.state, command.state)` in next_state")
    blk = brace_block(f, m.end() - 1)
    rest = (f[: m.start()] + f[m.end() - 1 + len(blk):]).strip()
    # nothing but the match may compute the result
    if re.sub(r"[\s{}]", "", rest) not in ("", ):
        sig = re.sub(r"\s+", " ", rest)[:80]
        if not re.fullmatch(r"\{?\s*\}?", rest):
            raise ExtractError(f"{rel}: next_state does more than one match over the two states: {sig!r}")

    def engine_lit(t, what):
        mm = re.search(r"Engine\s*\{\s*rpm\s*:\s*([^,]+?)\s*,\s*state\s*:\s*EngineState::(\w+)\s*,\s*\.\.Default::default\(\)\s*,?\s*\}", t)
        if not mm:
            raise ExtractError(f"{rel}: {what}: not an `Engine {{ rpm: …, state: EngineState::…, ..Default::default() }}` literal")
        e = re.sub(r"\s+", "", mm.group(1))
        reshaped = 0
        r1 = re.fullmatch(r"self\.reshape\((.*)\)", e)
        if r1:
            reshaped, e = 1, r1.group(1)
        src = {"self.rpm_idle": 0, "command.rpm": 1, "signal.rpm": 2, "self.rpm_max": 3}.get(e, 7)
        if mm.group(2) not in states:
            raise ExtractError(f"{rel}: unknown engine state {mm.group(2)}")
        return [src, reshaped, states[mm.group(2)]], mm.end()

    def pat_code(p):
        p = p.strip()
        if p == "_":
            return 9
        mm = re.fullmatch(r"EngineState::(\w+)", p)
        if not mm or mm.group(1) not in states:
            raise ExtractError(f"{rel}: arm pattern component {p!r}")
        return states[mm.group(1)]

    rows = []
    for pat, body in match_arms(blk):
        guard = 0
        g = re.search(r"\)\s*if\b", pat)
        if g:
            guard, pat = 1, pat[: g.start() + 1]
        mm = re.fullmatch(r"\(\s*([^,]+),\s*([^,]+?)\s*\)", pat.strip())
        if not mm:
            raise ExtractError(f"{rel}: arm pattern {pat.strip()!r} is not a pair of states")
        row = [pat_code(mm.group(1)), pat_code(mm.group(2)), guard]
        t = body
        to = re.search(r"if\s+let\s+Some\(instant\)\s*=\s*command_instant\s*\{\s*if\s+instant\.elapsed\(\)\s*>\s*self\.state_transition_timeout\s*\{\s*return\s+", t)
        if to:
            lit, end = engine_lit(t[to.end():], "expired-command return")
            row += [1] + lit
            tail = t[to.end() + end:]
            mm2 = re.match(r"\s*;?\s*\}\s*\}", tail)
            if not mm2:
                raise ExtractError(f"{rel}: unexpected code after the expired-command return")
            t = tail[mm2.end():]
        else:
            row += [0, 0, 0, 0]
        lit, end = engine_lit(t, "arm value")
        left = re.sub(r"[\s{}]", "", t[:re.search(r"Engine\s*\{", t).start()] + t[end:])
        if left:
            raise ExtractError(f"{rel}: arm {pat.strip()} contains more than the recognised shapes: {left[:60]!r}")
        row += lit
        rows.append(row)
    if not rows:
        raise ExtractError(f"{rel}: next_state has no arms")
    add("governorTable", "[" + ", ".join("[" + ", ".join(map(str, r)) + "]" for r in rows) + "]",
        "TRANSLATED from governor.rs Governor::next_state, one row per arm in source order: [signal state|9, command state|9, guard, has expired-return, (src, reshaped, state) of that return, (src, reshaped, state) of the value]; src 0 rpm_idle 1 command.rpm 2 signal.rpm 3 rpm_max 7 other",
        ty="List (List Nat)")
    # reshape itself
    rb = strip_comments(body_of(rel, r"fn\s+reshape\s*\(", "Governor::reshape"))
    ok = re.search(r"\{\s*(\w+)\.clamp\(\s*self\.rpm_idle\s*,\s*self\.rpm_max\s*\)\s*\}", rb) is not None
    add("governorReshapeIsClamp", "true" if ok else "false", "governor.rs Governor::reshape is `x.clamp(self.rpm_idle, self.rpm_max)`", ty="Bool")


HOOKS.append(extract_governor_table)


def extract_emergency_sequence():
    """TRANSLATOR: Director::command_emergency as the list of objects it sends, in source order.
    Row = [kind, code, arg]: kind 0 Control (code = wire code of the variant, arg = 1/0 of its bool), 1 Motion (code = wire
    type of the variant), 2 Engine (code 0 = Engine::shutdown())."""
    rel = "glonax-runtime/src/service/director.rs"
    f = strip_comments(body_of(rel, r"fn\s+command_emergency\s*\(", "command_emergency"))
    ctrl = {}
    for it in items:
        if it[0].startswith("controlType"):
            ctrl[it[0][len("controlType"):]] = int(it[2])
    mot = {}
    for it in items:
        if it[0].startswith("motionType"):
            mot[it[0][len("motionType"):]] = int(it[2])
    binds = {}
    rows = []
    pos = 0
    tok = re.compile(r"let\s+(\w+)\s*=\s*([^;]+);|command_tx\s*\.send\(\s*Object::(\w+)\(\s*([^()]*(?:\([^()]*\))?[^()]*)\)\s*\)")
    for m in tok.finditer(f):
        if m.group(1):
            binds[m.group(1)] = m.group(2).strip()
            continue
        kind, arg = m.group(3), m.group(4).strip()
        expr = binds.get(arg, arg)
        expr = re.sub(r"\s+", "", expr)
        if kind == "Control":
            mm = re.fullmatch(r"Control::(\w+)\((true|false)\)", expr)
            if not mm or mm.group(1) not in ctrl:
                raise ExtractError(f"{rel}: command_emergency sends an unrecognised control {expr!r}")
            rows.append([0, ctrl[mm.group(1)], 1 if mm.group(2) == "true" else 0])
        elif kind == "Motion":
            mm = re.fullmatch(r"Motion::(\w+)", expr)
            if not mm or mm.group(1) not in mot:
                raise ExtractError(f"{rel}: command_emergency sends an unrecognised motion {expr!r}")
            rows.append([1, mot[mm.group(1)], 0])
        elif kind == "Engine":
            if expr != "Engine::shutdown()":
                raise ExtractError(f"{rel}: command_emergency sends an unrecognised engine command {expr!r}")
            rows.append([2, 0, 0])
        else:
            raise ExtractError(f"{rel}: command_emergency sends an Object::{kind}")
    if len(rows) != len(re.findall(r"\.send\(", f)):
        raise ExtractError(f"{rel}: command_emergency has a send the translator does not recognise")
    if re.search(r"\b(return|break|if\s+(?!let\s+Err))", f):
        raise ExtractError(f"{rel}: command_emergency is not a straight sequence of sends")
    add("directorEmergencySeq", "[" + ", ".join("[%d, %d, %d]" % tuple(r) for r in rows) + "]",
        "TRANSLATED from director.rs command_emergency: objects sent, in source order: [0, control code, on] | [1, motion type, 0] | [2, 0, 0] = Engine::shutdown()", ty="List (List Nat)")


HOOKS.append(extract_emergency_sequence)


def extract_hcu_shape():
    """TRANSLATOR: the command side of HydraulicControlUnit as tables: which emitter each motion variant goes to in
    `trigger` and in `tick`, and where the shared driver context is written."""
    rel = "glonax-runtime/src/driver/net/hydraulic.rs"
    mot = {}
    for it in items:
        if it[0].startswith("motionType"):
            mot[it[0][len("motionType"):]] = int(it[2])
    emit = {"lock": 0, "unlock": 1, "motion_reset": 2, "drive_straight": 3, "actuator_command": 4}
    imp = strip_comments(body_of(rel, r"impl\s+J1939Unit\s+for\s+HydraulicControlUnit\b", "impl J1939Unit for HydraulicControlUnit"))

    def fn_body(name):
        m = re.search(r"fn\s+" + name + r"\s*\(", imp)
        if not m:
            raise ExtractError(f"{rel}: fn {name} of HydraulicControlUnit")
        i = imp.find("{", m.end())
        # skip the parameter list / return type: the body is the first block after the closing parenthesis of the signature
        d, j = 0, m.end() - 1
        while j < len(imp):
            if imp[j] == "(":
                d += 1
            elif imp[j] == ")":
                d -= 1
                if d == 0:
                    break
            j += 1
        i = imp.find("{", j)
        return brace_block(imp, i)

    def arms_of(body, scrut, what):
        m = re.search(r"match\s+" + scrut + r"\s*\{", body)
        if not m:
            raise ExtractError(f"{rel}: `match {scrut}` in {what}")
        rows = []
        for pat, b in match_arms(brace_block(body, m.end() - 1)):
            mm = re.fullmatch(r"Motion::(\w+)(?:\([^)]*\))?", pat.strip())
            if not mm or mm.group(1) not in mot:
                raise ExtractError(f"{rel}: {what}: arm {pat.strip()!r}")
            calls = re.findall(r"self\.(\w+)\(", b)
            calls = [c for c in calls if c in emit]
            if len(calls) != 1 or not re.search(r"tx_queue\.(push|extend_from_slice)\(", b):
                raise ExtractError(f"{rel}: {what}: arm {pat.strip()} does not push the frames of exactly one emitter")
            rows.append([mot[mm.group(1)], emit[calls[0]]])
        return rows, m.start()

    trig = fn_body("trigger")
    rows, mpos = arms_of(trig, r"motion", "trigger")
    add("hcuTriggerArms", "[" + ", ".join("[%d, %d]" % tuple(r) for r in rows) + "]",
        "TRANSLATED from hydraulic.rs trigger: [motion type, emitter] per arm (0 lock, 1 unlock, 2 motion_reset, 3 drive_straight, 4 actuator_command)", ty="List (List Nat)")
    stores = [m.start() for m in re.finditer(r"ctx\.set_tx_last_message\(\s*ObjectMessage::command\(\s*object\.clone\(\)\s*\)\s*\)\s*;", trig)]
    all_writes = len(re.findall(r"ctx\.set_\w+\(", trig))
    gate = re.search(r"if\s+let\s+Object::Motion\(motion\)\s*=\s*object\s*\{", trig)
    ok = False
    if gate and len(stores) == 1 and all_writes == 1 and gate.end() < stores[0] < mpos:
        between = trig[gate.end(): stores[0]]
        # nothing conditional between the gate and the store
        ok = re.search(r"\b(if|match|return|for|while)\b", between) is None and between.count("{") == between.count("}")
    add("hcuTriggerStoresEveryMotionFirst", "true" if ok else "false",
        "hydraulic.rs trigger: inside `if let Object::Motion(motion) = object`, unconditionally and before the encoding match, the one and only context write is ctx.set_tx_last_message(ObjectMessage::command(object.clone()))", ty="Bool")
    tick = fn_body("tick")
    rows2, _ = arms_of(tick, r"&motion_command", "tick")
    add("hcuTickArms", "[" + ", ".join("[%d, %d]" % tuple(r) for r in rows2) + "]", "TRANSLATED from hydraulic.rs tick: [motion type, emitter] per arm", ty="List (List Nat)")
    add("hcuTickContextWrites", len(re.findall(r"ctx\.(set_\w+|rx_mark)\(", tick)), "hydraulic.rs tick: writes to the shared driver context")
    dflt = re.search(r"let\s+motion_command\s*=\s*\{\s*if\s+let\s+Some\(message\)\s*=\s*&ctx\.tx_last_message\(\)\s*\{\s*if\s+let\s+Object::Motion\(motion\)\s*=\s*&message\.object\s*\{\s*motion\.clone\(\)\s*\}\s*else\s*\{\s*Motion::StopAll\s*\}\s*\}\s*else\s*\{\s*Motion::StopAll\s*\}\s*\}\s*;", tick)
    add("hcuTickReassertsStoredOrStopAll", "true" if dflt else "false", "hydraulic.rs tick: the command is the stored motion command, StopAll when nothing (or no motion) is stored", ty="Bool")
    recv = fn_body("try_recv")
    add("hcuRecvTxWrites", len(re.findall(r"ctx\.set_tx_\w+\(", recv)), "hydraulic.rs try_recv: writes to the TRANSMIT side of the shared driver context")


HOOKS.append(extract_hcu_shape)


def extract_volvo_shape():
    """TRANSLATOR: the command side of VolvoD7E as tables: the emitter each governed state goes to in `trigger` and `tick`
    ([engine state code, volvo state code of the speed-control frame]), the payload template of speed_control, how the
    command is normalised and stored, and where the shared driver context is written."""
    rel = "glonax-runtime/src/driver/net/volvo_ems.rs"
    states = dict(enum_discriminants("glonax-runtime/src/core/engine.rs", "EngineState"))
    vstates = dict(enum_discriminants(rel, "VolvoEngineState"))
    whole = strip_comments(src(rel))
    emit = {}
    m = re.search(r"impl\s+(?:super::engine::)?Engine\s+for\s+VolvoD7E\s*\{", whole)
    if not m:
        raise ExtractError(f"{rel}: impl Engine for VolvoD7E")
    eb = brace_block(whole, m.end() - 1)
    for mm in re.finditer(r"fn\s+(request|start|stop)\s*\(\s*&self\s*,\s*(\w+)\s*:\s*u16\s*\)\s*->\s*Frame\s*\{\s*self\.speed_control\(\s*VolvoEngineState::(\w+)\s*,\s*(\w+)\s*\)\s*\}", eb):
        if mm.group(2) != mm.group(4) or mm.group(3) not in vstates:
            raise ExtractError(f"{rel}: emitter {mm.group(1)} does not pass its speed to speed_control")
        emit[mm.group(1)] = vstates[mm.group(3)]
    if set(emit) != {"request", "start", "stop"}:
        raise ExtractError(f"{rel}: request/start/stop emitters of VolvoD7E")
    imp = strip_comments(body_of(rel, r"impl\s+J1939Unit\s+for\s+VolvoD7E\b", "impl J1939Unit for VolvoD7E"))

    def fn_body(name):
        m = re.search(r"fn\s+" + name + r"\s*\(", imp)
        if not m:
            raise ExtractError(f"{rel}: fn {name} of VolvoD7E")
        d, j = 0, m.end() - 1
        while j < len(imp):
            if imp[j] == "(":
                d += 1
            elif imp[j] == ")":
                d -= 1
                if d == 0:
                    break
            j += 1
        return brace_block(imp, imp.find("{", j))

    def arms_of(body, what):
        m = re.search(r"match\s+governor_engine\.state\s*\{", body)
        if not m:
            raise ExtractError(f"{rel}: `match governor_engine.state` in {what}")
        rows = []
        for pat, b in match_arms(brace_block(body, m.end() - 1)):
            mm = re.fullmatch(r"EngineState::(\w+)", pat.strip())
            if not mm or mm.group(1) not in states:
                raise ExtractError(f"{rel}: {what}: arm {pat.strip()!r}")
            c = re.fullmatch(r"\{\s*tx_queue\.push\(\s*self\.(request|start|stop)\(\s*governor_engine\.rpm\s*\)\s*\)\s*;\s*\}", b.strip())
            if not c:
                raise ExtractError(f"{rel}: {what}: arm {pat.strip()} is not one push of one emitter at the governed speed")
            rows.append([states[mm.group(1)], emit[c.group(1)]])
        return rows

    trig, tick = fn_body("trigger"), fn_body("tick")
    add("volvoTriggerArms", "[" + ", ".join("[%d, %d]" % tuple(r) for r in arms_of(trig, "trigger")) + "]",
        "TRANSLATED from volvo_ems.rs trigger: [governed engine state, state code of the speed-control frame] per arm", ty="List (List Nat)")
    add("volvoTickArms", "[" + ", ".join("[%d, %d]" % tuple(r) for r in arms_of(tick, "tick")) + "]",
        "TRANSLATED from volvo_ems.rs tick: [governed engine state, state code of the speed-control frame] per arm", ty="List (List Nat)")
    norm = re.search(r"let\s+engine_command\s*=\s*\{\s*if\s+engine_command\.rpm\s*>\s*0\s*\{\s*crate::core::Engine::from_rpm\(engine_command\.rpm\)\s*\}\s*else\s*\{\s*crate::core::Engine::shutdown\(\)\s*\}\s*\}\s*;", trig)
    store = re.search(r"ctx\.set_tx_last_message\(\s*ObjectMessage::command\(\s*Object::Engine\(engine_command\)\s*\)\s*\)\s*;", trig)
    gov = re.search(r"\.next_state\(\s*&engine_signal\s*,\s*&engine_command\s*,\s*None\s*\)", trig)
    ok = bool(norm and store and gov and norm.end() <= store.start() < gov.start()) and len(re.findall(r"ctx\.set_\w+\(", trig)) == 1
    add("volvoTriggerStoresNormalisedCommand", "true" if ok else "false",
        "volvo_ems.rs trigger: the command is normalised (rpm > 0 ? from_rpm : shutdown), stored with set_tx_last_message (the only context write) and then governed with no command age", ty="Bool")
    add("volvoTickContextWrites", len(re.findall(r"ctx\.(set_\w+|rx_mark)\(", tick)), "volvo_ems.rs tick: writes to the shared driver context")
    tgov = re.search(r"\.next_state\(\s*&engine_signal\s*,\s*&engine_command\.0\s*,\s*engine_command\.1\s*\)", tick)
    tcmd = re.search(r"let\s+engine_command\s*=\s*\{\s*if\s+let\s+Some\(message\)\s*=\s*&ctx\.tx_last_message\(\)\s*\{\s*if\s+let\s+Object::Engine\(engine\)\s*=\s*message\.object\s*\{\s*\(engine\s*,\s*Some\(message\.timestamp\)\)\s*\}\s*else\s*\{\s*\(engine_signal\s*,\s*None\)\s*\}\s*\}\s*else\s*\{\s*\(engine_signal\s*,\s*None\)\s*\}\s*\}\s*;", tick)
    add("volvoTickGovernsStoredCommandWithItsAge", "true" if (tgov and tcmd) else "false",
        "volvo_ems.rs tick: governs the stored engine command with its timestamp; with nothing stored, the reported engine with no age", ty="Bool")
    # payload template of speed_control
    sc = body_of(rel, r"pub\s+fn\s+speed_control\s*\(", "speed_control")
    sc = strip_comments(sc)
    t = re.search(r"\.copy_from_slice\(\s*&\[\s*([^\]]+)\]\s*\)", sc)
    if not t:
        raise ExtractError(f"{rel}: payload of speed_control")
    parts = [re.sub(r"\s+", "", x) for x in t.group(1).split(",") if x.strip()]
    tmpl = []
    for x in parts:
        if x == "stateasu8":
            tmpl.append(256)
        elif x == "(rpmasf32/10.0)asu8":
            tmpl.append(257)
        else:
            try:
                tmpl.append(num(x))
            except ValueError:
                raise ExtractError(f"{rel}: speed_control payload byte {x!r}")
    add("volvoPayloadTemplate", "[" + ", ".join(map(str, tmpl)) + "]", "TRANSLATED from volvo_ems.rs speed_control: payload bytes (256 = `state as u8`, 257 = `(rpm as f32 / 10.0) as u8`)", ty="List Nat")


HOOKS.append(extract_volvo_shape)


def extract_director_decision():
    """TRANSLATOR: the decision of Director::wait_io_sub as a table, one row per (state of an arm pattern):
    [state discriminant, gating operation (1 Supervised, 2 Autonomous, 0 none, 9 other), action
     (0 command_emergency, 1 send Motion::StopAll, 2 send the computed motion, 8 nothing, 9 other)]; plus the elected state
    (`max` over the map, Nominal when empty) and the operation the director is built with."""
    rel = "glonax-runtime/src/service/director.rs"
    st = dict(enum_discriminants(rel, "DirectorLocslState"))
    f = strip_comments(body_of(rel, r"async\s+fn\s+wait_io_sub\s*\(", "Director::wait_io_sub"))
    m = re.search(r"match\s+max_state\s*\{", f)
    if not m:
        raise ExtractError(f"{rel}: `match max_state` in wait_io_sub")
    elect = re.search(r"let\s+max_state\s*=\s*self\s*\.state\s*\.values\(\)\s*\.copied\(\)\s*\.max\(\)\s*\.unwrap_or\(\s*DirectorLocslState::Nominal\s*\)\s*;", f)
    add("directorElectsMaxOrNominal", "true" if elect else "false", "director.rs wait_io_sub: the decision is taken on the maximum verdict of the map, Nominal when it is empty", ty="Bool")
    ops = {"Supervised": 1, "Autonomous": 2}
    rows = []
    for pat, body in match_arms(brace_block(f, m.end() - 1)):
        sends = len(re.findall(r"command_tx\s*\.send\(|command_emergency\(", body))
        gate, action = 0, 8
        g = re.search(r"if\s+self\.operation\s*==\s*DirectorOperation::(\w+)([^{]*)\{", body)
        if sends:
            if not g or g.group(1) not in ops:
                gate = 9 if g else 0
            else:
                gate = ops[g.group(1)]
            gb = brace_block(body, g.end() - 1) if g else body
            outside = len(re.findall(r"command_tx\s*\.send\(|command_emergency\(", body.replace(gb, "")))
            if outside:
                gate = 0
            if re.search(r"Self::command_emergency\(\s*&command_tx\s*\)", gb) and sends == 1:
                action = 0
            elif re.search(r"let\s+motion_command\s*=\s*Motion::StopAll\s*;", gb) and sends == 1:
                action = 1
            elif re.search(r"let\s+motion_command\s*=\s*Motion::from_iter\(actuator_motion\)\s*;", gb) and sends == 1:
                action = 2
            else:
                action = 9
        for alt in [a.strip() for a in pat.split("|")]:
            mm = re.fullmatch(r"DirectorLocslState::(\w+)", alt)
            if not mm or mm.group(1) not in st:
                raise ExtractError(f"{rel}: wait_io_sub arm {alt!r}")
            rows.append([st[mm.group(1)], gate, action])
    add("directorDecisionArms", "[" + ", ".join("[%d, %d, %d]" % tuple(r) for r in rows) + "]",
        "TRANSLATED from director.rs wait_io_sub: [verdict, gating operation (1 Supervised, 2 Autonomous, 0 ungated), action (0 emergency sequence, 1 StopAll, 2 computed motion, 8 nothing, 9 other)]", ty="List (List Nat)")
    for k, v in st.items():
        add("directorVerdict" + k, v, "director.rs enum DirectorLocslState")
    n = strip_comments(src(rel))
    mo = re.findall(r"operation\s*:\s*DirectorOperation::(\w+)", n)
    if len(mo) != 1:
        raise ExtractError(f"{rel}: the operation the director is constructed with")
    add("directorBuiltSupervised", "true" if mo[0] == "Supervised" else "false", "director.rs Director::new: operation: DirectorOperation::Supervised", ty="Bool")


HOOKS.append(extract_director_decision)


def extract_input_table():
    """TRANSLATOR: InputState::try_from (glonax-input/src/input.rs) as a table, one row per match arm:
    axis   [0, scancode, gate, expr, d1, d2, out, actuator]
           scancode 0 Slew 1 Arm 2 Attachment 3 Boom 4 LeftTrack 5 RightTrack; gate 1 = `if self.motion_lock { return None; }`;
           expr 1: if limit {(v/2).ramp(d1)} else {v.ramp(d1)} | 2: if v<0 {expr1(d1)} else {v.ramp(d2)} | 3: if v<0 {v.ramp(d1)} else {expr1(d2)}
                | 4: v.ramp(d1); out 0: Motion::new(actuator, value) | 1: if drive_lock {StraightDrive(value)} else {Motion::new(actuator, value)}
    set    [1, scancode, pressed, field, value, out]   one assignment `self.field = value` (0 drive_lock 1 motion_lock 2 limit_motion),
           out 0 None 1 Some(StopAll) 2 Some(ResumeAll) 3 Some(StraightDrive(POWER_NEUTRAL)); scancode 8 Abort 9 DriveLock 10 LimitMotion
    up     [2, 6, 1, gate, step, lo, hi]   gate 2 = `if !self.motion_lock { return None; }`, rpm = (rpm + step).clamp(lo, hi), Some(from_rpm)
    down   [3, 7, 1, floor, step, lo, hi]  if rpm <= floor { rpm = 0; return Some(shutdown) }; rpm = (rpm - step).clamp(lo, hi), Some(from_rpm)
    Anything else is an EXTRACT-FAIL."""
    rel = "glonax-input/src/input.rs"
    act = {}
    for it in items:
        if it[0].startswith("actuator") and it[1] == "Nat":
            act[it[0][len("actuator"):]] = int(it[2])
    f = strip_comments(body_of(rel, r"fn\s+try_from\s*\(\s*&mut\s+self\s*,\s*input\s*:\s*Scancode\s*\)", "InputState::try_from"))
    m = re.search(r"match\s+input\s*\{", f)
    if not m:
        raise ExtractError(f"{rel}: `match input` in try_from")
    sc_ids = {"Slew": 0, "Arm": 1, "Attachment": 2, "Boom": 3, "LeftTrack": 4, "RightTrack": 5, "Up": 6, "Down": 7, "Abort": 8, "DriveLock": 9, "LimitMotion": 10, "Confirm": 11}
    fields = {"drive_lock": 0, "motion_lock": 1, "limit_motion": 2}
    N = r"([0-9_]+)"
    e1 = lambda: r"ifself\.limit_motion\{\(value/2\)\.ramp\(" + N + r"\)\}else\{value\.ramp\(" + N + r"\)\}"
    rows, catch_all = [], False
    for pat, body in match_arms(brace_block(f, m.end() - 1)):
        p1 = re.sub(r"\s+", "", pat)
        b = re.sub(r"\s+", "", body)
        if p1 == "_":
            catch_all = b == "None"
            continue
        ma = re.fullmatch(r"Scancode::(\w+)\(value\)", p1)
        mb = re.fullmatch(r"Scancode::(\w+)\(ButtonState::(Pressed|Released)\)", p1)
        if ma and ma.group(1) in sc_ids:
            sc = sc_ids[ma.group(1)]
            g = re.match(r"\{ifself\.motion_lock\{returnNone;\}", b)
            gate = 1 if g else 9
            rest = b[g.end():] if g else b[1:]
            ex = None
            for kind, rx in [(1, r"letvalue=" + e1() + r";"),
                             (2, r"letvalue=ifvalue\.is_negative\(\)\{" + e1() + r"\}else\{value\.ramp\(" + N + r"\)\};"),
                             (3, r"letvalue=ifvalue\.is_negative\(\)\{value\.ramp\(" + N + r"\)\}else" + e1() + r";"),
                             (4, r"letvalue=value\.ramp\(" + N + r"\);")]:
                mm = re.match(rx, rest)
                if mm:
                    ds = [num(x) for x in mm.groups()]
                    if kind == 1:
                        if ds[0] != ds[1]:
                            break
                        ex = (1, ds[0], 0)
                    elif kind == 2:
                        if ds[0] != ds[1]:
                            break
                        ex = (2, ds[0], ds[2])
                    elif kind == 3:
                        if ds[1] != ds[2]:
                            break
                        ex = (3, ds[0], ds[1])
                    else:
                        ex = (4, ds[0], 0)
                    rest = rest[mm.end():]
                    break
            if ex is None:
                raise ExtractError(f"{rel}: try_from arm {pat.strip()}: value expression not recognised")
            o0 = re.fullmatch(r"Some\(Object::Motion\(Motion::new\(Actuator::(\w+),value\)\)\)\}", rest)
            o1 = re.fullmatch(r"ifself\.drive_lock\{Some\(Object::Motion\(Motion::StraightDrive\(value\)\)\)\}else\{Some\(Object::Motion\(Motion::new\(Actuator::(\w+),value\)\)\)\}\}", rest)
            o = o0 or o1
            if not o or o.group(1) not in act:
                raise ExtractError(f"{rel}: try_from arm {pat.strip()}: output not recognised")
            rows.append([0, sc, gate, ex[0], ex[1], ex[2], 0 if o0 else 1, act[o.group(1)]])
        elif mb and mb.group(1) in sc_ids:
            sc, pressed = sc_ids[mb.group(1)], 1 if mb.group(2) == "Pressed" else 0
            ms = re.fullmatch(r"\{self\.(\w+)=(true|false);(None|Some\(Object::Motion\(Motion::StopAll\)\)|Some\(Object::Motion\(Motion::ResumeAll\)\)|Some\(Object::Motion\(Motion::StraightDrive\(Motion::POWER_NEUTRAL\)\)\))\}", b)
            mu = re.fullmatch(r"\{if!self\.motion_lock\{returnNone;\}self\.engine_rpm=\(self\.engine_rpm\+" + N + r"\)\.clamp\(" + N + "," + N + r"\);Some\(Object::Engine\(Engine::from_rpm\(self\.engine_rpm\)\)\)\}", b)
            md = re.fullmatch(r"\{ifself\.engine_rpm<=" + N + r"\{self\.engine_rpm=0;returnSome\(Object::Engine\(Engine::shutdown\(\)\)\);\}self\.engine_rpm=\(self\.engine_rpm-" + N + r"\)\.clamp\(" + N + "," + N + r"\);Some\(Object::Engine\(Engine::from_rpm\(self\.engine_rpm\)\)\)\}", b)
            if ms and ms.group(1) in fields:
                out = {"None": 0}.get(ms.group(3), 1 if "StopAll" in ms.group(3) else 2 if "ResumeAll" in ms.group(3) else 3)
                rows.append([1, sc, pressed, fields[ms.group(1)], 1 if ms.group(2) == "true" else 0, out])
            elif mu and sc == 6:
                rows.append([2, sc, pressed, 2] + [num(x) for x in mu.groups()])
            elif md and sc == 7:
                rows.append([3, sc, pressed] + [num(x) for x in md.groups()])
            else:
                raise ExtractError(f"{rel}: try_from arm {pat.strip()}: body not recognised")
        else:
            raise ExtractError(f"{rel}: try_from arm pattern {pat.strip()!r}")
    if not catch_all:
        raise ExtractError(f"{rel}: try_from has no `_ => None` arm")
    pn = one("glonax-runtime/src/core/motion.rs", r"POWER_NEUTRAL\s*:\s*\w+\s*=\s*([0-9_]+)\s*;", "Motion::POWER_NEUTRAL")
    add("inputPowerNeutral", num(pn.group(1)), "core/motion.rs Motion::POWER_NEUTRAL")
    add("inputTable", "[" + ", ".join("[" + ", ".join(map(str, r)) + "]" for r in rows) + "]",
        "TRANSLATED from glonax-input/src/input.rs InputState::try_from, one row per arm in source order (layout: see extract_input_table in tools/extract.py)", ty="List (List Nat)")


HOOKS.append(extract_input_table)


def extract_filter_shape():
    """TRANSLATOR: FilterItem::matches as the ordered list of its checks
    ([entry field, id accessor, 1 if compared as Some(field) against an Option]; 0 priority, 1 pgn / pgn_raw, 2 source_address,
    3 destination_address), each of the shape `if let Some(x) = self.FIELD { if x != id.ACCESSOR() { return false; } }`,
    followed by `true`; Filter::matches and Filter::push as recognised shapes."""
    rel = "glonax-runtime/src/net.rs"
    imp = strip_comments(body_of(rel, r"impl\s+FilterItem\s*\{", "impl FilterItem"))
    m = re.search(r"fn\s+matches\s*\(\s*&self\s*,\s*id\s*:\s*&Id\s*\)\s*->\s*bool\s*\{", imp)
    if not m:
        raise ExtractError(f"{rel}: FilterItem::matches")
    b = re.sub(r"\s+", "", brace_block(imp, m.end() - 1))
    fields = {"priority": 0, "pgn": 1, "source_address": 2, "destination_address": 3}
    acc = {"priority": 0, "pgn_raw": 1, "source_address": 2, "destination_address": 3}
    rows, pos = [], 1
    rx = re.compile(r"ifletSome\((\w+)\)=self\.(\w+)\{if(Some\(\1\)|\1)!=id\.(\w+)\(\)\{returnfalse;\}\}")
    while True:
        mm = rx.match(b, pos)
        if not mm:
            break
        if mm.group(2) not in fields or mm.group(4) not in acc:
            raise ExtractError(f"{rel}: FilterItem::matches check on {mm.group(2)} / {mm.group(4)}")
        rows.append([fields[mm.group(2)], acc[mm.group(4)], 1 if mm.group(3).startswith("Some(") else 0])
        pos = mm.end()
    if b[pos:] != "true}":
        raise ExtractError(f"{rel}: FilterItem::matches is not a sequence of field checks followed by `true`: {b[pos:pos+60]!r}")
    add("filterItemChecks", "[" + ", ".join("[%d, %d, %d]" % tuple(r) for r in rows) + "]",
        "TRANSLATED from net.rs FilterItem::matches: [entry field, id accessor, compared as Some(..)] per check in source order (0 priority, 1 pgn/pgn_raw, 2 source, 3 destination)", ty="List (List Nat)")
    fimp = strip_comments(body_of(rel, r"impl\s+Filter\s*\{", "impl Filter"))
    m = re.search(r"pub\s+fn\s+matches\s*\(\s*&self\s*,\s*id\s*:\s*&Id\s*\)\s*->\s*bool\s*\{", fimp)
    if not m:
        raise ExtractError(f"{rel}: Filter::matches")
    fb = re.sub(r"\s+", "", brace_block(fimp, m.end() - 1))
    shape = fb == "{letmatch_items=self.items.iter().any(|item|item.matches(id));(self.accept&&(self.items.is_empty()||match_items))||(!self.accept&&(self.items.is_empty()||!match_items))}"
    add("filterMatchesShape", "true" if shape else "false", "net.rs Filter::matches is `any item matches`, then (accept && (empty || any)) || (!accept && (empty || !any))", ty="Bool")
    m = re.search(r"pub\s+fn\s+push\s*\(\s*&mut\s+self\s*,\s*item\s*:\s*FilterItem\s*\)\s*\{", fimp)
    if not m:
        raise ExtractError(f"{rel}: Filter::push")
    add("filterPushAppends", "true" if re.sub(r"\s+", "", brace_block(fimp, m.end() - 1)) == "{self.items.push(item);}" else "false",
        "net.rs Filter::push is `self.items.push(item);`", ty="Bool")
    # every constructor / setter of an entry stores exactly its argument in exactly its field
    ok = True
    for f in fields:
        mw = re.search(r"pub\s+fn\s+with_%s\s*\(\s*%s\s*:\s*\w+\s*\)\s*->\s*Self\s*\{" % (f, f), imp)
        ms = re.search(r"pub\s+fn\s+set_%s\s*\(\s*mut\s+self\s*,\s*%s\s*:\s*\w+\s*\)\s*->\s*Self\s*\{" % (f, f), imp)
        if not mw or not ms:
            raise ExtractError(f"{rel}: FilterItem::with_{f} / set_{f}")
        bw = re.sub(r"\s+", "", brace_block(imp, mw.end() - 1))
        bs = re.sub(r"\s+", "", brace_block(imp, ms.end() - 1))
        ok = ok and bw == "{Self{%s:Some(%s),..Default::default()}}" % (f, f) and bs == "{self.%s=Some(%s);self}" % (f, f)
    add("filterItemCtorsStoreTheirArgument", "true" if ok else "false",
        "net.rs FilterItem::with_F(v) is `Self { F: Some(v), ..Default::default() }` and set_F(v) is `self.F = Some(v); self`, for the four fields", ty="Bool")
    md = re.search(r"impl\s+Default\s+for\s+Filter\s*\{\s*fn\s+default\s*\(\s*\)\s*->\s*Self\s*\{\s*Self::accept\(\)\s*\}\s*\}", strip_comments(src(rel)))
    add("filterDefaultIsAccept", "true" if md else "false", "net.rs `impl Default for Filter` is `Self::accept()`", ty="Bool")


HOOKS.append(extract_filter_shape)


def extract_frame_header_checks():
    """TRANSLATOR: Frame::try_from(&[u8]) as the ordered list of its checks, [condition, error] per check:
    condition 1 `buffer.len() != PROTO_BUFFER_SIZE`, 2 `buffer[0..3] != PROTO_HEADER[..]`, 3 `version != PROTO_VERSION` (version =
    buffer[3]), 4 `payload_length == 0`, 5 `payload_length > MAX_PAYLOAD_SIZE` (payload_length = big-endian buffer[5], buffer[6]),
    6 `buffer[7..10] != [0u8; 3]`; error 0 FrameTooSmall 1 InvalidHeader 2 VersionMismatch 3 PayloadEmpty 4 ExcessivePayloadLength
    5 InvalidPadding; then `Ok(Self::new(buffer[4], payload_length))`."""
    rel = "glonax-runtime/src/protocol/frame.rs"
    imp = strip_comments(body_of(rel, r"impl\s+TryFrom<&\[u8\]>\s+for\s+Frame\b", "impl TryFrom<&[u8]> for Frame"))
    m = re.search(r"fn\s+try_from\s*\(\s*buffer\s*:\s*&\[u8\]\s*\)[^{]*\{", imp)
    if not m:
        raise ExtractError(f"{rel}: Frame::try_from")
    b = re.sub(r"\s+", "", brace_block(imp, m.end() - 1))[1:-1]
    conds = {"buffer.len()!=PROTO_BUFFER_SIZE": 1, "buffer[0..3]!=PROTO_HEADER[..]": 2, "version!=PROTO_VERSION": 3,
             "payload_length==0": 4, "payload_length>MAX_PAYLOAD_SIZE": 5, "buffer[7..10]!=[0u8;3]": 6}
    errs = {"FrameTooSmall": 0, "InvalidHeader": 1, "VersionMismatch": 2, "PayloadEmpty": 3, "ExcessivePayloadLength": 4, "InvalidPadding": 5}
    lets = {"letversion=buffer[3];": "version", "letpayload_length=u16::from_be_bytes([buffer[5],buffer[6]])asusize;": "payload_length"}
    rows, pos, bound = [], 0, set()
    while pos < len(b):
        hit = False
        for k, v in lets.items():
            if b.startswith(k, pos):
                bound.add(v)
                pos += len(k)
                hit = True
        if hit:
            continue
        mm = re.match(r"if([^{]+)\{Err\(FrameError::(\w+)(?:\([^)]*\))?\)\?;?\}", b[pos:])
        if mm:
            c, e = mm.group(1), mm.group(2)
            if c not in conds or e not in errs:
                raise ExtractError(f"{rel}: Frame::try_from check `{c}` -> {e} is not one the translator knows")
            for var in ("version", "payload_length"):
                if var in c and var not in bound:
                    raise ExtractError(f"{rel}: Frame::try_from uses {var} before its definition")
            rows.append([conds[c], errs[e]])
            pos += mm.end()
            continue
        break
    if b[pos:] != "Ok(Self::new(buffer[4],payload_length))" or "payload_length" not in bound:
        raise ExtractError(f"{rel}: Frame::try_from does not end with Ok(Self::new(buffer[4], payload_length)): {b[pos:pos+70]!r}")
    add("frameHeaderChecks", "[" + ", ".join("[%d, %d]" % tuple(r) for r in rows) + "]",
        "TRANSLATED from protocol/frame.rs Frame::try_from: [condition, error] per check in source order (see extract_frame_header_checks)", ty="List (List Nat)")


HOOKS.append(extract_frame_header_checks)


def extract_glue_shapes():
    """Small structural facts of glue code that several properties rest on (each a recognised shape or `false`)."""
    net = "glonax-runtime/src/net.rs"
    imp = strip_comments(body_of(net, r"impl\s+ControlNetwork\s*\{", "impl ControlNetwork"))
    m = re.search(r"pub\s+fn\s+with_filter\s*\(\s*mut\s+self\s*,\s*filter\s*:\s*Filter\s*\)\s*->\s*Self\s*\{", imp)
    if not m:
        raise ExtractError(f"{net}: ControlNetwork::with_filter")
    add("netWithFilterReplaces", "true" if re.sub(r"\s+", "", brace_block(imp, m.end() - 1)) == "{self.filter=filter;self}" else "false",
        "net.rs ControlNetwork::with_filter is `self.filter = filter; self` (the given filter REPLACES the default one)", ty="Bool")
    m = re.search(r"pub\s+async\s+fn\s+recv\s*\(\s*&mut\s+self\s*\)[^{]*\{", imp)
    if not m:
        raise ExtractError(f"{net}: ControlNetwork::recv")
    rb = re.sub(r"\s+", "", brace_block(imp, m.end() - 1))
    shape = rb == ("{loop{letframe=self.socket.recv().await?;ifself.filter.matches(frame.id()){letframe_fixed=FrameBuilder::new(*frame.id())"
                   ".copy_from_slice(frame.as_ref()).set_len(8).build();self.frame=Some(frame_fixed);break;}}Ok(())}")
    add("netRecvFiltersThenPadsTo8", "true" if shape else "false",
        "net.rs ControlNetwork::recv: loop { frame = socket.recv()?; if filter.matches(id) { copy_from_slice(frame) THEN set_len(8); store; break } }", ty="Bool")
    au = "glonax-runtime/src/service/authority.rs"
    a = strip_comments(src(au))
    m = re.search(r"impl\s+NetDriverItem\s*\{\s*fn\s+new\s*\(\s*driver\s*:\s*Box<dyn\s+J1939Unit>\s*,\s*rx_timeout\s*:\s*Option<Duration>\s*\)\s*->\s*Self\s*\{", a)
    fresh = False
    if m:
        nb = re.sub(r"\s+", "", brace_block(a, m.end() - 1))
        fresh = nb == "{Self{driver,context:NetDriverContext::default(),rx_timeout,last_status:None,}}"
    add("authorityUnitsHaveTheirOwnContext", "true" if fresh else "false",
        "authority.rs NetDriverItem::new builds `context: NetDriverContext::default()` (one driver context per unit, nothing shared between units)", ty="Bool")
    nb = strip_comments(body_of(au, r"fn\s+new\s*\(\s*config\s*:\s*NetworkConfig\s*\)", "NetworkAuthority::new"))
    n1 = re.sub(r"\s+", "", nb)
    loop_ok = ("fordriverinconfig.driver.iter(){letnet_driver=crate::driver::net::driver_factory(&driver.vendor,&driver.product,network.interface(),driver.da,driver.sa.unwrap_or(config.address),);"
               "ifletSome(net_driver)=net_driver{drivers.push(NetDriverItem::new(net_driver,driver.timeout.map(Duration::from_millis),));}else{") in n1
    add("authorityBuildsEveryKnownEntry", "true" if loop_ok else "false",
        "authority.rs NetworkAuthority::new: for every configured entry, driver_factory(vendor, product, interface, da, sa or the network address); a known pair is pushed with its timeout, an unknown one only logged", ty="Bool")
    gv = "glonax-runtime/src/driver/governor.rs"
    g = strip_comments(src(gv))
    m = re.search(r"pub\s+fn\s+new\s*\(\s*rpm_idle\s*:\s*u16\s*,\s*rpm_max\s*:\s*u16\s*,\s*state_transition_timeout\s*:\s*Duration\s*\)\s*->\s*Self\s*\{", g)
    ok = False
    if m:
        ok = re.sub(r"\s+", "", brace_block(g, m.end() - 1)) == "{Self{rpm_idle,rpm_max,state_transition_timeout,}}"
    add("governorNewStoresItsArguments", "true" if ok else "false", "governor.rs Governor::new stores rpm_idle, rpm_max and the timeout as given", ty="Bool")


HOOKS.append(extract_glue_shapes)


def f32(x):
    import struct
    return struct.unpack("<f", struct.pack("<f", x))[0]


def f32_bits(x):
    import struct
    return struct.unpack("<I", struct.pack("<f", x))[0]


def deg_to_rad_bits(deg):
    """bit pattern of `(deg as f32).to_radians()` = deg * (PI_f32 / 180.0_f32), each step rounded to f32"""
    import math
    k = f32(f32(math.pi) / f32(180.0))
    return f32_bits(f32(f32(deg) * k))


def extract_director():
    d = "glonax-runtime/src/service/director.rs"
    add("directorInclinometer", const(d, "INCLINOMETER"), "director.rs INCLINOMETER source address")
    b = body_of(d, r"INCLINOMETER\s*=>\s*\{", "inclinometer arm of elect_rotator_state")
    # thresholds with the verdict each branch returns, in source order
    arms = re.findall(r"roll\s*>\s*([0-9.]+)_f32\.to_radians\(\)\s*\|\|\s*pitch\s*>\s*([0-9.]+)_f32\.to_radians\(\)\)\s*&&\s*yaw\s*==\s*0\.0\s*\{.*?return\s+DirectorLocslState::(\w+)", b, re.S)
    if len(arms) != 2 or any(a[0] != a[1] for a in arms):
        raise ExtractError("director.rs: inclinometer branches (found %r)" % (arms,))
    for i, (t, _, verdict) in enumerate(arms):
        add(f"directorTiltBranch{i}Bits", deg_to_rad_bits(float(t)), f"director.rs inclinometer branch {i}: ({t}_f32).to_radians() as f32 bit pattern")
        add(f"directorTiltBranch{i}Emergency", "true" if verdict == "Emergency" else "false", f"director.rs inclinometer branch {i} returns {verdict}", ty="Bool")
        add(f"directorTiltBranch{i}Deg", int(float(t)), f"director.rs inclinometer branch {i} threshold in degrees")


HOOKS.append(extract_director)

def extract_input():
    f = "glonax-input/src/main.rs"
    b = body_of(f, r"let\s+mut\s+input_state\s*=\s*input::InputState\s*\{", "start-up InputState in glonax-input main")
    def field(name, pat):
        m = re.search(name + r"\s*:\s*" + pat + r"\s*,", b)
        if not m:
            raise ExtractError(f"glonax-input main.rs: start-up value of {name}")
        return m
    add("inputStartDriveLock", field("drive_lock", r"(true|false)").group(1), "glonax-input main: drive_lock at start-up", ty="Bool")
    add("inputStartMotionLock", field("motion_lock", r"(true|false)").group(1), "glonax-input main: motion_lock at start-up", ty="Bool")
    m = field("limit_motion", r"(!?)args\.full_motion")
    add("inputStartLimitIsNotFullMotion", "true" if m.group(1) == "!" else "false", "glonax-input main: limit_motion = !args.full_motion", ty="Bool")
    add("inputStartEngineRpm", num(field("engine_rpm", r"([0-9_]+)").group(1)), "glonax-input main: engine_rpm at start-up")
    m = one(f, r"default_value_t\s*=\s*(true|false)\s*\)\]\s*fail_safe\s*:\s*bool", "fail_safe default")
    add("inputFailSafeDefault", m.group(1), "glonax-input main: --fail-safe default", ty="Bool")
    j = "glonax-input/src/joystick.rs"
    for name in ["JS_EVENT_TYPE_BUTTON", "JS_EVENT_TYPE_AXIS", "JS_EVENT_INIT"]:
        add(camel(name), const(j, name), "joystick.rs " + name)


HOOKS.append(extract_input)


def block_at(s, i, what):
    """brace block of `s` that starts at the first `{` at or after offset i: (start, end_exclusive)"""
    i = s.find("{", i)
    if i < 0:
        raise ExtractError(f"no block for {what}")
    depth, j = 0, i
    while j < len(s):
        if s[j] == "{":
            depth += 1
        elif s[j] == "}":
            depth -= 1
            if depth == 0:
                return i, j + 1
        j += 1
    raise ExtractError(f"unbalanced block for {what}")


POINT_IDS = {"enter": 0, "guard": 1, "spawn": 2, "spawn2": 3, "spawn3": 4}
ROLE_OF_CALL = {"wait_io_sub": 0, "wait_io_pub": 1, "recv": 2, "on_tick": 3, "on_command": 4}


def schedule_ops(fn):
    """The scheduling function as a list of micro-operations in SOURCE ORDER:
       [0, slot]                                   let <v> = self.shutdown.0.subscribe()
       [1]                                         S::new(..) / <service>.clone()
       [2]                                         if self.shutdown.1.is_empty() {
       [3, slot, setup, teardown, arm, guarded, role]   self.spawn(async move { [setup] select!{loop{role}, <v>.recv()} [teardown] })
       [4, id]                                     verification point
    `slot` numbers the `let` it comes from; a spawn's slot is the binding of the receiver named in its select arm
    that is in scope at the spawn (999 if its select has no shutdown arm)."""
    r = "glonax-runtime/src/runtime/mod.rs"
    b = body_of(r, r"pub\s+fn\s+" + fn + r"\b.*?\)\s*where.*?\{", fn)
    b = re.sub(r"//[^\n]*", lambda m: " " * len(m.group(0)), b)
    events = []  # (offset, op)
    slot_of = []  # (offset, name, slot)
    for k, m in enumerate(re.finditer(r"let\s+(?:mut\s+)?(\w+)\s*=\s*self\s*\.\s*shutdown\s*\.\s*0\s*\.\s*subscribe\s*\(\s*\)", b)):
        slot_of.append((m.start(), m.group(1), k))
        events.append((m.start(), [0, k]))
    for m in re.finditer(r"\bS::new\s*\(|\bservice\d*\s*\.\s*clone\s*\(\s*\)", b):
        events.append((m.start(), [1]))
    guards = []
    for m in re.finditer(r"if\s+self\s*\.\s*shutdown\s*\.\s*1\s*\.\s*is_empty\s*\(\s*\)\s*\{", b):
        st, en = block_at(b, m.end() - 1, fn + " guard")
        guards.append((st, en))
        events.append((m.start(), [2]))
    for m in re.finditer(r"self\s*\.\s*verif_point\s*\(\s*\"(\w+)\"\s*\)", b):
        if m.group(1) not in POINT_IDS:
            raise ExtractError(f"runtime/mod.rs {fn}: unknown verification point {m.group(1)}")
        events.append((m.start(), [4, POINT_IDS[m.group(1)]]))
    for m in re.finditer(r"self\s*\.\s*spawn\s*\(\s*async\s+move\s*\{", b):
        st, en = block_at(b, m.end() - 1, fn + " spawn")
        t = b[st:en]
        sm = re.search(r"tokio::select!\s*\{", t)
        if not sm:
            raise ExtractError(f"runtime/mod.rs {fn}: spawned task without select!")
        s0, s1 = block_at(t, sm.end() - 1, fn + " select")
        before, sel, after = t[:sm.start()], t[s0:s1], t[s1:]
        setup = 1 if re.search(r"\.\s*setup\s*\(\s*\)\s*\.\s*await", before) else 0
        teardown = 1 if re.search(r"\.\s*teardown\s*\(\s*\)\s*\.\s*await", after) else 0
        lm = re.search(r"\bloop\s*\{", sel)
        if not lm:
            raise ExtractError(f"runtime/mod.rs {fn}: select! without service loop")
        l0, l1 = block_at(sel, lm.end() - 1, fn + " loop")
        role = None
        for name, code in ROLE_OF_CALL.items():
            if re.search(r"\.\s*" + name + r"\s*\(", sel[l0:l1]):
                role = code
        if role is None:
            raise ExtractError(f"runtime/mod.rs {fn}: service loop calls no known service method")
        # the shutdown arm: `_ = <v>.recv() => {}` outside the loop block
        rest = sel[:l0] + sel[l1:]
        am = re.search(r"=\s*(\w+)\s*\.\s*recv\s*\(\s*\)\s*=>", rest)
        slot, arm = 999, 0
        if am:
            cands = [(o, k) for (o, n, k) in slot_of if n == am.group(1) and o < m.start()]
            if cands:
                slot, arm = max(cands)[1], 1
        guarded = 1 if any(g0 <= m.start() < g1 for g0, g1 in guards) else 0
        events.append((m.start(), [3, slot, setup, teardown, arm, guarded, role]))
    events.sort(key=lambda e: e[0])
    if not any(op[0] == 3 for _, op in events):
        raise ExtractError(f"runtime/mod.rs {fn}: no spawned task found")
    return [op for _, op in events]


def lean_ll(ops):
    return "[" + ", ".join("[" + ", ".join(str(x) for x in op) + "]" for op in ops) + "]"


def extract_tasks():
    add("schedIoSubOps", lean_ll(schedule_ops("schedule_io_sub_service")), "runtime/mod.rs schedule_io_sub_service as micro-operations in source order (see tools/extract.py schedule_ops)", ty="List (List Nat)")
    add("schedIoPubOps", lean_ll(schedule_ops("schedule_io_pub_service")), "runtime/mod.rs schedule_io_pub_service", ty="List (List Nat)")
    add("schedNetOps", lean_ll(schedule_ops("schedule_net_service")), "runtime/mod.rs schedule_net_service", ty="List (List Nat)")
    # glonax-server main.rs run(): order of the runtime calls
    f = "glonax-server/src/main.rs"
    b = body_of(f, r"async\s+fn\s+run\s*\(", "glonaxd run()")
    b = re.sub(r"//[^\n]*", lambda m: " " * len(m.group(0)), b)
    calls = []
    loops = []
    for m in re.finditer(r"for\s+\w+\s+in\s+&?config\s*\.\s*j1939\s*\{", b):
        loops.append(block_at(b, m.end() - 1, "j1939 loop"))
    for m in re.finditer(r"runtime\s*\.\s*(register_shutdown_signal|schedule_io_sub_service|schedule_io_pub_service|schedule_net_service|wait_for_shutdown|wait_for_tasks)\b", b):
        code = {"register_shutdown_signal": 0, "schedule_io_sub_service": 1, "schedule_io_pub_service": 5,
                "schedule_net_service": 2, "wait_for_shutdown": 3, "wait_for_tasks": 4}[m.group(1)]
        in_loop = any(a <= m.start() < z for a, z in loops)
        if code == 2 and not in_loop:
            raise ExtractError("glonaxd run(): schedule_net_service outside the per-network loop")
        if code != 2 and in_loop:
            raise ExtractError("glonaxd run(): unexpected runtime call inside the per-network loop")
        calls.append(code)
    add("mainCalls", "[" + ", ".join(map(str, calls)) + "]", "glonax-server main.rs run(): 0 register_shutdown_signal, 1 schedule_io_sub_service, 5 schedule_io_pub_service, 2 schedule_net_service (once per configured network), 3 wait_for_shutdown, 4 wait_for_tasks — in source order", ty="List Nat")
    u = "contrib/systemd/glonax.service"
    m = one(u, r"^TimeoutStopSec\s*=\s*(\d+)\s*$", "TimeoutStopSec", flags=re.M)
    add("supervisorStopTimeoutSec", int(m.group(1)), "contrib/systemd/glonax.service TimeoutStopSec")


HOOKS.append(extract_tasks)


def main():
    try:
        extract()
        for h in HOOKS:
            h()
    except ExtractError as e:
        print(f"EXTRACT-FAIL {e}", file=sys.stderr)
        return 2
    lines = [
        "-- GENERATED by /verif/tools/extract.py from /repo's working tree. Do not edit.",
        "namespace Glonax.Consts",
        "",
    ]
    seen = set()
    for name, ty, val, comment in items:
        if name in seen:
            print(f"EXTRACT-FAIL duplicate item {name}", file=sys.stderr)
            return 2
        seen.add(name)
        if comment:
            lines.append(f"/-- {comment} -/")
        lines.append(f"def {name} : {ty} := {val}")
    lines += ["", "end Glonax.Consts", ""]
    text = "\n".join(lines)
    out = os.path.normpath(OUT)
    old = None
    if os.path.exists(out):
        with open(out, encoding="utf-8") as f:
            old = f.read()
    if old != text:
        os.makedirs(os.path.dirname(out), exist_ok=True)
        tmp = out + ".tmp%d" % os.getpid()
        with open(tmp, "w", encoding="utf-8") as f:
            f.write(text)
        os.replace(tmp, out)
    print(f"extract: {len(items)} items -> {out}")
    return 0


if __name__ == "__main__":
    sys.exit(main())
