#!/usr/bin/env python3
"""Regenerate GlonaxModel/Generated/Consts.lean from /repo's current working tree.

Every item is located by declaration (named const, enum discriminant, match table) or by an
anchored pattern inside a named function.  If an item cannot be found the extractor FAILS
(exit 2, message on stderr): it never substitutes a default.  The output file is rewritten only
when its content changes so that lake does not rebuild needlessly.
"""
import os, re, sys

REPO = os.environ.get("GLONAX_REPO", "/repo")
OUT = os.path.join(os.path.dirname(os.path.abspath(__file__)), "..", "lean", "GlonaxModel", "Generated", "Consts.lean")


class ExtractError(Exception):
    pass


_cache = {}


def src(rel):
    if rel not in _cache:
        p = os.path.join(REPO, rel)
        try:
            with open(p, encoding="utf-8") as f:
                _cache[rel] = f.read()
        except OSError as e:
            raise ExtractError(f"{rel}: cannot read ({e})")
    return _cache[rel]


def num(tok):
    tok = tok.strip().replace("_", "")
    tok = re.sub(r"(u8|u16|u32|u64|usize|i8|i16|i32|i64|isize)$", "", tok)
    if tok.startswith("0x") or tok.startswith("0X"):
        return int(tok, 16)
    if tok.startswith("0b"):
        return int(tok, 2)
    return int(tok)


def one(rel, pattern, what, flags=re.S):
    m = re.search(pattern, src(rel), flags)
    if not m:
        raise ExtractError(f"{rel}: cannot find {what} (pattern {pattern!r})")
    return m


def body_of(rel, anchor, what):
    """Text of the brace block following the first match of `anchor` (a regex)."""
    s = src(rel)
    m = re.search(anchor, s, re.S)
    if not m:
        raise ExtractError(f"{rel}: cannot find {what} (anchor {anchor!r})")
    i = s.find("{", m.end() - 1)
    if i < 0:
        raise ExtractError(f"{rel}: no block after {what}")
    depth, j = 0, i
    while j < len(s):
        c = s[j]
        if c == "{":
            depth += 1
        elif c == "}":
            depth -= 1
            if depth == 0:
                return s[i : j + 1]
        j += 1
    raise ExtractError(f"{rel}: unbalanced block after {what}")


def enum_discriminants(rel, enum):
    """[(Variant, value)] of `enum Name { A = 1, ... }` (explicit discriminants only)."""
    b = body_of(rel, r"\benum\s+" + enum + r"\b[^{;]*\{", f"enum {enum}")
    b = re.sub(r"//[^\n]*", "", b)
    out = []
    for m in re.finditer(r"\b([A-Z][A-Za-z0-9]*)\s*=\s*([0-9a-fA-Fxb_]+)\s*,?", b):
        out.append((m.group(1), num(m.group(2))))
    if not out:
        raise ExtractError(f"{rel}: enum {enum} has no explicit discriminants")
    return out


def enum_variants(rel, enum):
    b = body_of(rel, r"\benum\s+" + enum + r"\b[^{;]*\{", f"enum {enum}")
    b = re.sub(r"//[^\n]*", "", b)
    b = re.sub(r"#\[[^\]]*\]", "", b)
    return [m.group(1) for m in re.finditer(r"\b([A-Z][A-Za-z0-9]*)\s*(?:\([^)]*\)|\{[^}]*\})?\s*(?:=\s*[0-9a-fA-Fxb_]+)?\s*,", b[1:-1] + ",")]


def const(rel, name):
    m = one(rel, r"\bconst\s+" + name + r"\s*:\s*[A-Za-z0-9_<>:]+\s*=\s*([0-9a-fA-Fxb_]+(?:u8|u16|u32|usize)?)\s*;", f"const {name}")
    return num(m.group(1))


def message_type(rel, ty):
    b = body_of(rel, r"impl\s+(?:crate::protocol::)?Packetize\s+for\s+" + ty + r"\b", f"Packetize for {ty}")
    m = re.search(r"const\s+MESSAGE_TYPE\s*:\s*u8\s*=\s*([0-9a-fA-Fx_]+)\s*;", b)
    if not m:
        raise ExtractError(f"{rel}: MESSAGE_TYPE of {ty}")
    t = num(m.group(1))
    m = re.search(r"const\s+MESSAGE_SIZE\s*:\s*Option<usize>\s*=\s*(None|Some\(([^)]*)\))\s*;", b)
    if not m:
        # default from the trait: None
        size = None
    elif m.group(1) == "None":
        size = None
    else:
        size = m.group(2).strip()
    return t, size


items = []  # (lean name, lean type, lean value, comment)


def add(name, value, comment="", ty="Nat"):
    items.append((name, ty, str(value), comment))


def lower1(s):
    return s[0].lower() + s[1:]


def extract():
    # ---- core/engine.rs : EngineState discriminants -------------------------------------------
    for v, n in enum_discriminants("glonax-runtime/src/core/engine.rs", "EngineState"):
        add(f"engineState{v}", n, "core/engine.rs enum EngineState")
    # ---- driver/net/volvo_ems.rs : governor parameters and state codes ------------------------
    b = body_of("glonax-runtime/src/driver/net/volvo_ems.rs", r"impl\s+VolvoD7E\s*\{", "impl VolvoD7E")
    m = re.search(r"Governor::new\(\s*([0-9_]+)\s*,\s*([0-9_]+)\s*,\s*Duration::from_millis\(\s*([0-9_]+)\s*\)\s*\)", b)
    if not m:
        raise ExtractError("volvo_ems.rs: Governor::new(idle, max, Duration::from_millis(t)) in VolvoD7E::new")
    add("volvoRpmIdle", num(m.group(1)), "VolvoD7E::new Governor::new arg 1")
    add("volvoRpmMax", num(m.group(2)), "VolvoD7E::new Governor::new arg 2")
    add("volvoTimeoutMs", num(m.group(3)), "VolvoD7E::new Governor::new arg 3")
    for v, n in enum_discriminants("glonax-runtime/src/driver/net/volvo_ems.rs", "VolvoEngineState"):
        add(f"volvoState{v}", n, "volvo_ems.rs enum VolvoEngineState")
    m = re.search(r"PGN::ProprietaryB\(\s*([0-9_]+)\s*\)\s*\)\s*\.priority\(\s*([0-9]+)\s*\)", b, re.S)
    if not m:
        raise ExtractError("volvo_ems.rs: speed_control PGN/priority")
    add("volvoSpeedPgn", num(m.group(1)), "VolvoD7E::speed_control PGN")
    add("volvoSpeedPriority", num(m.group(2)), "VolvoD7E::speed_control priority")


HOOKS = []

def extract_hcu():
    f = "glonax-runtime/src/driver/net/hydraulic.rs"
    add("hcuStatusPgn", const(f, "STATUS_PGN"), "hydraulic.rs STATUS_PGN")
    m = one(f, r"const\s+BANK_PGN_LIST\s*:\s*\[PGN;\s*2\]\s*=\s*\[\s*PGN::Other\(([0-9_]+)\)\s*,\s*PGN::Other\(([0-9_]+)\)\s*\]", "BANK_PGN_LIST")
    add("hcuBankPgn0", num(m.group(1)), "hydraulic.rs BANK_PGN_LIST[0]")
    add("hcuBankPgn1", num(m.group(2)), "hydraulic.rs BANK_PGN_LIST[1]")
    add("hcuBankSlots", const(f, "BANK_SLOTS"), "hydraulic.rs BANK_SLOTS")
    # ActuatorMessage::to_frame priority and MotionConfigMessage::to_frame PGN / priority
    b = body_of(f, r"impl\s+ActuatorMessage\s*\{", "impl ActuatorMessage")
    m = re.search(r"fn\s+to_frame.*?\.priority\(\s*([0-9]+)\s*\)", b, re.S)
    if not m:
        raise ExtractError("hydraulic.rs: ActuatorMessage::to_frame priority")
    add("hcuActuatorPriority", num(m.group(1)), "ActuatorMessage::to_frame priority")
    b = body_of(f, r"impl\s+MotionConfigMessage\s*\{", "impl MotionConfigMessage")
    m = re.search(r"fn\s+to_frame.*?IdBuilder::from_pgn\(PGN::(\w+)\)\s*\.priority\(\s*([0-9]+)\s*\)", b, re.S)
    if not m:
        raise ExtractError("hydraulic.rs: MotionConfigMessage::to_frame pgn/priority")
    add("hcuMotionConfigPgn", pgn_number(m.group(1)), "MotionConfigMessage::to_frame PGN::" + m.group(1))
    add("hcuMotionConfigPriority", num(m.group(2)), "MotionConfigMessage::to_frame priority")
    # Actuator discriminants
    for v, n in enum_discriminants("glonax-runtime/src/core/motion.rs", "Actuator"):
        add(f"actuator{v}", n, "core/motion.rs enum Actuator")
    for name in ["MOTION_TYPE_STOP_ALL", "MOTION_TYPE_RESUME_ALL", "MOTION_TYPE_RESET_ALL", "MOTION_TYPE_STRAIGHT_DRIVE", "MOTION_TYPE_CHANGE", "MOTION_MAX_CHANGE_SET_COUNT"]:
        add(camel(name), const("glonax-runtime/src/core/motion.rs", name), "core/motion.rs " + name)
    # vecraft state bytes (State::to_byte)
    b = body_of("glonax-runtime/src/driver/net/vecraft.rs", r"pub\s+fn\s+to_byte\(self\)\s*->\s*u8", "vecraft State::to_byte")
    for m in re.finditer(r"State::(\w+)\s*=>\s*(0x[0-9a-fA-F]+|[0-9]+)", b):
        add("vecraftState" + m.group(1), num(m.group(2)), "vecraft.rs State::to_byte")


def camel(name):
    parts = name.lower().split("_")
    return parts[0] + "".join(p.capitalize() for p in parts[1:])


_PGN_TABLE = None


def pgn_number(variant):
    """Number of a named j1939::PGN variant, read from the j1939 crate source in the cargo registry
    (vendored dependency, not part of /repo; version pinned by Cargo.lock)."""
    global _PGN_TABLE
    if _PGN_TABLE is None:
        import glob
        cands = sorted(glob.glob(os.path.expanduser("~/.cargo/registry/src/*/j1939-0.1.*/src/pgn.rs")))
        if not cands:
            raise ExtractError("j1939 crate source not found in the cargo registry")
        t = open(cands[-1], encoding="utf-8").read()
        _PGN_TABLE = {m.group(1): num(m.group(2)) for m in re.finditer(r"PGN::(\w+)\s*=>\s*([0-9_]+)\s*,", t)}
    if variant not in _PGN_TABLE:
        raise ExtractError(f"PGN::{variant} not in the j1939 crate table")
    return _PGN_TABLE[variant]


HOOKS.append(extract_hcu)


def main():
    try:
        extract()
        for h in HOOKS:
            h()
    except ExtractError as e:
        print(f"EXTRACT-FAIL {e}", file=sys.stderr)
        return 2
    lines = [
        "-- GENERATED by /verif/tools/extract.py from /repo's working tree. Do not edit.",
        "namespace Glonax.Consts",
        "",
    ]
    seen = set()
    for name, ty, val, comment in items:
        if name in seen:
            print(f"EXTRACT-FAIL duplicate item {name}", file=sys.stderr)
            return 2
        seen.add(name)
        if comment:
            lines.append(f"/-- {comment} -/")
        lines.append(f"def {name} : {ty} := {val}")
    lines += ["", "end Glonax.Consts", ""]
    text = "\n".join(lines)
    out = os.path.normpath(OUT)
    old = None
    if os.path.exists(out):
        with open(out, encoding="utf-8") as f:
            old = f.read()
    if old != text:
        os.makedirs(os.path.dirname(out), exist_ok=True)
        tmp = out + ".tmp%d" % os.getpid()
        with open(tmp, "w", encoding="utf-8") as f:
            f.write(text)
        os.replace(tmp, out)
    print(f"extract: {len(items)} items -> {out}")
    return 0


if __name__ == "__main__":
    sys.exit(main())
