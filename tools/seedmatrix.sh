#!/bin/sh
# usage: tools/seedmatrix.sh  — every seeded mutation against every check of its family (quick tier); writes seeded/MATRIX.md
# (informational: a seed aimed at one property need not violate its siblings)
cd /verif
fam() { case $1 in C03|C04|C05|C13|C14) echo "C03 C04 C05 C13 C14";; C01|C02|C06|C08|C11|C12) echo "C01 C02 C06 C08 C11 C12";; C10|C16|C20) echo "C10 C16 C20 C01 C06";; *) echo "$1";; esac; }
out=seeded/MATRIX.md
echo "| seed | target | results of the family's checks (quick) |" > $out
echo "|---|---|---|" >> $out
for d in seeded/C*; do
  n=$(basename $d); [ -f $d/patch.diff ] || continue
  t=$(python3 -c "import json;print(json.load(open('$d/meta.json'))['property'])")
  [ -z "$(git -C /repo status --porcelain)" ] || { echo "/repo not clean"; exit 2; }
  git -C /repo apply /verif/$d/patch.diff || { echo "| $n | $t | patch does not apply |" >> $out; continue; }
  row=""
  for p in $(fam $t); do
    cp evidence/$p.json .cache/evidence-$p.keep 2>/dev/null
    r=$(./check $p 2>/dev/null | grep -E "^C[0-9]+ tier" | sed -E 's/.*disagree=([0-9]+) spec_fail=([0-9]+).*-> (\w+)/\3 d=\1 s=\2/')
    mv .cache/evidence-$p.keep evidence/$p.json 2>/dev/null
    row="$row $p:[$r]"
  done
  git -C /repo checkout -- .
  echo "| $n | $t |$row |" >> $out
  echo "$n done"
done
