#!/bin/sh
# usage: tools/mut.sh <file-in-repo> <python-re-pattern> <replacement> <prop>...   (ad-hoc mutation smoke test)
f=$1; pat=$2; rep=$3; shift 3
cd /repo && python3 - "$f" "$pat" "$rep" <<'PY'
import re,sys
f,pat,rep=sys.argv[1:4]
s=open(f).read()
n=len(re.findall(pat,s,re.S))
assert n>=1, "pattern not found"
s=re.sub(pat,rep,s,count=1,flags=re.S)
open(f,'w').write(s)
print("mutated",f,"matches",n)
PY
[ $? -eq 0 ] || exit 1
cd /verif
for p in "$@"; do cp evidence/$p.json /verif/.cache/evidence-$p.keep 2>/dev/null; ./check $p 2>/dev/null | tail -2; [ -f /verif/.cache/evidence-$p.keep ] && mv /verif/.cache/evidence-$p.keep evidence/$p.json; done
git -C /repo checkout -- .
