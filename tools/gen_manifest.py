#!/usr/bin/env python3
"""Writes /verif/MANIFEST.json from the table below (kept in one place so it is always valid)."""
import json, os
V = os.path.dirname(os.path.dirname(os.path.abspath(__file__)))
props = [json.loads(l) for l in open(os.path.join(V, "properties.jsonl"))]

# id -> (technique, level text, level note, design ref)
CLAIMED = {
 "C07": ("Lean 4 theorems over the governor decision table (case split on states, omega on rpm; all rpm/ages/idle<=max) + exhaustive differential table against Governor::next_state",
         "Machine-checked proof (Lean 4 kernel) that the model of Governor::next_state satisfies every clause of the envelope for all states, all speeds, all ages and all idle<=max; the model is tied to the code by running all 4x4 states x 65536 speeds x 3 age classes x several settings through the real function and comparing, with the Spec also evaluated on the implementation's own output.",
         "Assumes the model equals the code outside the enumerated settings (idle,max,timeout) - the function is parametric in them; ages are produced with Instant::now()-d, far from the deadline; clamp with idle>max panics in Rust and is excluded by hypothesis.",
         "DESIGN.md section 4 C07"),
}
NOT_YET = "check not built yet in this round (planned: Lean model + correspondence, see DESIGN.md section 4)"

checks, na = [], []
for p in props:
    i = p["id"]
    if i in CLAIMED:
        tech, text, note, ref = CLAIMED[i]
        checks.append({
            "property_id": i,
            "quick_cmd": f"./check {i} --tier quick",
            "thorough_cmd": f"./check {i} --tier thorough",
            "evidence_file": f"evidence/{i}.json",
            "replay_cmd_template": f"./check {i} --replay {{path}}",
            "engine": "lean4-model+correspondence",
            "level_claimed": {"category": "proof", "text": text, "design_ref": ref},
            "level_note": note,
            "technique": tech,
        })
    else:
        na.append({"property_id": i, "reason": NOT_YET})
m = {
 "version": 1,
 "setup_cmd": "./setup",
 "hooks": {
  "guard": "cargo feature `verif` of crate glonax (glonax-runtime)",
  "enable": "the harness depends on glonax with features=[\"verif\"]; real binaries: cargo build --features glonax/verif",
  "baseline_off_cmd": "cd /repo && cargo test --workspace --no-fail-fast --offline",
  "source_commits": [],
  "add_only": True,
 },
 "engines": [{
  "name": "lean4-model+correspondence",
  "path": "check",
  "serves_properties": [c["property_id"] for c in checks],
  "kind_free_text": "Lean 4 theorems about a hand-written executable model (lean/GlonaxModel), constants regenerated from /repo by tools/extract.py, model tied to the code by a differential correspondence harness (harness/, real code in-process) whose cases the compiled Lean driver replays; Spec predicates are evaluated on the implementation's output",
 }],
 "checks": checks,
 "not_applicable": na,
 "notes": "See DESIGN.md. KNOWN_FINDINGS.txt lists recorded findings and fixed defects.",
}
json.dump(m, open(os.path.join(V, "MANIFEST.json"), "w"), indent=1)
print("MANIFEST.json:", len(checks), "claimed,", len(na), "not_applicable")
