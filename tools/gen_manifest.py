#!/usr/bin/env python3
"""Writes /verif/MANIFEST.json from the table below (kept in one place so it is always valid)."""
import json, os
V = os.path.dirname(os.path.dirname(os.path.abspath(__file__)))
props = [json.loads(l) for l in open(os.path.join(V, "properties.jsonl"))]

# id -> (technique, level text, level note, design ref)
CLAIMED = {
 "C07": ("Lean 4 theorems over the governor decision table (case split on states, omega on rpm; all rpm/ages/idle<=max) + exhaustive differential table against Governor::next_state",
         "Machine-checked proof (Lean 4 kernel) that the model of Governor::next_state satisfies every clause of the envelope for all states, all speeds, all ages and all idle<=max; the model is tied to the code by running all 4x4 states x 65536 speeds x 3 age classes x several settings through the real function and comparing, with the Spec also evaluated on the implementation's own output.",
         "Assumes the model equals the code outside the enumerated settings (idle,max,timeout) - the function is parametric in them; ages are produced with Instant::now()-d, far from the deadline; clamp with idle>max panics in Rust and is excluded by hypothesis.",
         "DESIGN.md section 4 C07"),
 "C01": ("Lean 4 induction over histories of the HCU driver state machine (state = last motion command) + differential histories on the real HydraulicControlUnit/NetDriverContext",
         "Machine-checked proof that for every finite history of commands (all object kinds), received frames and ticks the model's tick output is the encoding of the most recent motion command (stop-all initially), is only the lock frame while that is stop-all, and is unaffected by non-motion ops; the model is tied to the real driver by random histories compared frame-for-frame, the Spec being evaluated on the implementation's frames.",
         "Interleavings: each handler touches tx_last_message in one atomic lock acquisition (trigger one write, tick one read, try_recv none), so concurrent executions are sequential histories ordered by that access; std Mutex and the tokio scheduler are trusted. rx frames that make try_recv panic are C06's concern.",
         "DESIGN.md section 4 C01"),
 "C02": ("Lean 4 theorems over the HCU frame encoder for all change lists (any length, order, duplicates), all i16, all (da,sa) + exhaustive/enumerated differential run of HydraulicControlUnit::trigger and ActuatorMessage::from_frame",
         "Machine-checked proof that the model encoder satisfies the addressing, config-frame, slot-placement and decode-round-trip clauses for every motion, every change list and every address pair; tied to the code by enumerating all (da,sa) for config frames, all/boundary i16 per actuator, every actuator sequence up to length 3 (5 thorough), empty and 32-entry sets, with bit-exact frame comparison.",
         "IdBuilder of the j1939 crate is modelled as + under disjoint-field hypotheses (PDU1 groups with zero low byte), checked differentially; HashMap iteration order is irrelevant because keys are distinct after collection (modelled as last-write-wins).",
         "DESIGN.md section 4 C02"),
 "C17": ("Lean 4 theorems about can_frame marshalling (all ids, len 0..8, data) and filter semantics for filter lists of any length + differential run through the real CANSocket/ControlNetwork on the emulated bus and Filter::matches",
         "Machine-checked proof that the modelled send produces EFF-set/RTR-ERR-clear frames carrying id, length and data, that receive masks to 29 bits and pads with 0xFF to 8 bytes, and that Filter::matches equals the reference accept/reject predicate for every list; tied to the code by raw 16-byte frames exchanged with the real ControlNetwork over the verif bus seam and by all filter lists up to 2 (3 thorough) entries over all 16 field masks.",
         "The seam replaces only socket creation and the final send syscall; the marshalling lines are the production ones. DLC > 8 cannot occur on classic CAN and would index out of bounds in CANSocket::recv (excluded by the property). Kernel CAN stack trusted.",
         "DESIGN.md section 4 C17"),
 "C13": ("Lean 4 theorems over the wire model (header layout, exact header parser over all 10-byte strings, distinct type codes, fixed sizes, size bound, decode-encode round trip for all twelve kinds by induction on lists, totality of recv_packet) + differential run of send_packet / Frame::try_from / recv_packet incl. every truncation and single-byte substitution",
         "Machine-checked proof that the model's twelve encoders/decoders and the header codec satisfy every clause for all objects within the stated bounds and all byte strings; tied to the code by encoding objects of every kind with the real send_packet (bit-exact), parsing headers (all types x boundary lengths, every single-byte corruption) with the real Frame::try_from, and receiving every kind at every declared size 0..64/1023..1025 with truncated, substituted and random payloads through the real recv_packet under catch_unwind.",
         "f32 fields are opaque bit patterns: Euler<->matrix conversion (nalgebra) is outside the model and compared numerically by the harness; from_utf8_lossy on invalid UTF-8 is not modelled (names compared only when valid). One recorded finding: Actor payloads can exceed 1024 bytes within the stated string bounds (KNOWN_FINDINGS.txt, Lean witness C13_actor_exceeds).",
         "DESIGN.md section 4 C13"),
 "C04": ("Lean 4 theorems over the session state machine (M-sess): induction over frame lists and over event lists (any chunking, any signal interleaving), all 256 type codes, payload lengths 1..1024 + differential runs of the real session over a scripted transport polled by hand",
         "Machine-checked proof that any event list whose bytes are a sequence of well-formed frames dispatches exactly the valid command frames in order, ends at a frame boundary, and that the result depends only on the concatenated bytes (C04_stream, C04_chunking, C04_frames); tied to the code by feeding generated frame streams whole, byte-wise, at every single cut offset and at random multi-cuts, with signals published at the cuts, to the real spawn_client_session and comparing commands, written bytes and termination per event.",
         "select!, read (cancel safe) and broadcast semantics of tokio are modelled; schedules in which both select! branches are ready at once are not generated (tokio picks at random; both orders are covered by the theorems since signals never affect dispatch). Two genuine defects were found and fixed (KNOWN_FINDINGS.txt).",
         "DESIGN.md section 4 C04"),
 "C03": ("Lean 4 theorems over M-sess: for every event list of bytes/signals followed by a termination of any of the four kinds the armed session emits stop-all after all dispatched commands and ends; arming = failsafe bit of the last registration that passed validation, unaffected by a partially received frame + differential runs cutting generated streams at EVERY byte offset x 4 termination kinds on the real session",
         "Machine-checked proof of C03_failsafe / C03_stop_is_last / C03_unarmed_silent / C03_arming / C03_partial_frame_inert for all command sequences, all cut offsets, all termination kinds and signal interleavings; tied to the real session by grammar-generated streams cut at every offset with each termination kind, all 32 flag values and invalid flags, valid-then-invalid upgrades.",
         "What the OS reports for a dead peer (EOF / ECONNRESET / ETIMEDOUT / ECONNABORTED, persistently) is assumed; other error kinds are outside the property. Signals queued during a payload read at the time of death make both select! branches ready (random order, writes to a dead peer unobservable): not generated.",
         "DESIGN.md section 4 C03"),
 "C05": ("Lean 4 invariant proof over M-sess from the initial state: no event list (arbitrary bytes, signals, terminations) produces a panic, the session ends only by a termination event, sessions are independent + differential hostile streams on the real session under catch_unwind",
         "Machine-checked proof of C05_no_panic (invariant on the payload phase + totality of the decoders), C05_normal_exit and C05_isolation for all byte streams; tied to the code by per-byte 0..255 sweeps of every payload byte of each accepted type, declared-length sweeps 1..64/1023..1025, truncation at every offset, all 256 type codes, corrupted and random streams, each ending in a termination so that the failsafe path is exercised.",
         "Allocation failure and stack overflow are outside the model; the control loop and other sessions are separate tasks sharing only the two broadcast channels (C05_isolation is stated on the product model).",
         "DESIGN.md section 4 C05"),
 "C14": ("Lean 4 theorems over M-sess + M-ring (broadcast ring with per-receiver cursor): handshake reply, streaming faithfulness, gating, lag = retained suffix in order, compatibility test + differential runs incl. bursts of 1/15/16/17/40 signals while the session is held inside a payload read, and is_compatibile over all (major,minor)",
         "Machine-checked proof of C14_handshake, C14_stream_faithful, C14_gated, C14_lag_subsequence (against the publication history, ring invariant by induction), C14_identity_roundtrip and C14_compat_iff; tied to the real session with real tokio broadcast channels: all 32 flag values x names (empty, 64, >64, multi-byte), all six signal kinds, interleavings with command writes cut at arbitrary offsets, bursts around the queue capacity, closed signal channel.",
         "tokio::sync::broadcast is modelled (capacity 16, Lagged moves the cursor to the oldest retained value) and exercised differentially through the session; a client that stops reading blocks only its own session task (tasks are independent), which is stated, not proved, about tokio.",
         "DESIGN.md section 4 C14"),
 "C08": ("Lean 4 induction over histories of the VolvoD7E driver state (latest status, latest command as interpreted, its age) with the governor theorems of C07 + differential histories (all op sequences to depth 5/7, random depth 30) on the real driver with simulated ages",
         "Machine-checked proof (C08_history, C08_same_meaning) that for every history of status frames, engine commands, other commands, cycles and waits every emitted frame is a valid speed-control frame equal to the governor's decision for the latest status and the latest command read the same way at acceptance and on every cycle, that a zero-speed command on a running engine yields the shutdown code on every cycle and that no start code is sent once the command is older than the timeout; tied to the real VolvoD7E + NetDriverContext by enumerated and random histories, EEC1 status frames decoded by the real try_recv.",
         "Time is modelled in ms and simulated by rewriting the stored command's timestamp (no sleeping); ages within 150 ms of the 2000 ms deadline are not generated; handler durations are taken as 0. One genuine defect found and fixed (KNOWN_FINDINGS.txt).",
         "DESIGN.md section 4 C08"),
 "C12": ("Lean 4 theorems equating the model decoders with independently written reference decoders at integer/bit level for all payloads (EEC1 fields and state rule, encoder/inclinometer error words, HCU lock bit, signed slopes) + exhaustive differential sweeps of every 16-bit field through the real try_recv, rotations compared with an f64 reference",
         "Machine-checked proof (C12_spec, C12_eec1_fields, C12_never_running_at_zero, C12_error_keeps_measurement, C12_inclino_signed, ...) for every 8-byte payload; tied to the code by exhaustive sweeps of inclinometer slopes, EEC1 rpm, encoder status words (thorough: all 65536 each), all 256 values of the demand/load/starter/status/lock bytes, four encoder addresses with boundary and sampled 32-bit positions.",
         "Trigonometry and f32 rounding are outside the model: the harness compares the published Rotation3 with an independent f64 evaluation of -(p/1000 - offset) about the joint axis / of the Euler construction, tolerance scaled by the operand's f32 ulp; encoder positions above 100000 (100 rad) are counted but not asserted.",
         "DESIGN.md section 4 C12"),
 "C11": ("Lean 4 theorems over the parse guards of every driver kind: a frame touches a unit's state only if its source is the unit's address and it is not addressed elsewhere; requests are inert; distinct units never share a frame + differential sweep of 256 sources x destination classes x all inspected parameter groups on every driver kind incl. the shipped configuration's units",
         "Machine-checked proof of C11_source_guard, C11_at_most_one, C11_requests_inert, C11_signal_names_unit for all frames and all driver kinds except the development-only simulator, for which the negation is proved with a witness (C11_simulator_witness) and recorded as a finding; tied to the real drivers by observing signals, rx_count and rx_last_message for every (source, destination class, PGN) combination.",
         "Authority-level attribution (first driver producing objects wins, Request short-circuit) is covered with C10/C20 on the emulated bus. One genuine defect (TSC1 from any source) found and fixed.",
         "DESIGN.md section 4 C11"),
 "C06": ("Lean 4 theorems: normalisation of short frames (all DLC 0..8), totality of try_recv for every driver kind/address/frame, reception leaves the command side working + differential per-byte 0..255 sweeps and PGN x source x destination sweeps on every real driver under catch_unwind",
         "Machine-checked proof of C06_normalise, C06_network_delivers_8, C06_driver_total, C06_hcu_keeps_working, C06_engine_keeps_working; tied to the code by sweeping every data byte 0..255 on the frames each driver decodes, all inspected parameter groups x source x destination classes x data patterns and random frames through the real try_recv of all eight driver kinds (DLC 0..8 through the real ControlNetwork is exercised by C17).",
         "DLC > 8 cannot occur on classic CAN (excluded by the property). Two genuine defects found and fixed (vecraft status byte, simulator unwrap).",
         "DESIGN.md section 4 C06"),
 "C09": ("Lean 4 induction over signal histories of the director state (verdict of the latest rotator and of the latest engine signal), thresholds and branch order regenerated from the source, f32 comparisons decided on bit patterns by an integer order key + differential histories through the real Director::wait_io_sub (all 65536 rpm, angle grid x sources)",
         "Machine-checked proof (C09_history / C09_emergency_iff) that after every processed signal of every history the model emits the full emergency sequence in order iff the latest engine reading exceeds 2200 rpm or the latest rotation reading is an inclinometer reading beyond +45 degrees of roll or pitch, and nothing otherwise; the inclinometer branches are regenerated in source order so a re-ordering or a moved threshold breaks the obligation; tied to the real director fed one signal at a time through real broadcast channels.",
         "nalgebra's Euler extraction is outside the model (the model is stated on the extracted angles' f32 bit patterns; beyond +-90 degrees of pitch the extraction returns yaw = pi and the code does not classify the reading as tilt). Supervised mode is hard-wired. One genuine defect found and fixed (branch order).",
         "DESIGN.md section 4 C09"),
 "C18": ("Lean 4 theorems over the glonax-input pipeline model (record decoder, device mappers, interlock state machine: every state x every scancode, lifted to sequences of any length by induction) and the glonaxctl word/packet table + in-process differential runs of the real Event::from/map/InputState::try_from, end-to-end runs of the real glonaxctl (and, thorough, glonax-input on a FIFO) against a stub daemon",
         "Machine-checked proof of C18_locked_means_locked, C18_abort_stops, C18_startup_locked, C18_deadband, C18_half_scale, C18_engine_range, C18_no_crash, C18_arith_in_range, C18_sequences and the CLI theorems; tied to the code by all 112 reachable interlock states x all scancodes x boundary/random (thorough: all 65536) axis values, raw records of all four types x every number x extreme values in all four modes, the real glonaxctl binary for every toggle sub-command x accepted/rejected words x compatible/incompatible daemon, and the real glonax-input binary fed through a FIFO (start-up state, failsafe flag, forwarding).",
         "The start-up state and --fail-safe default of glonax-input's main are regenerated from the source by the extractor and observed end to end only in the thorough tier (and in the search step). clap argument parsing is trusted. One genuine defect found and fixed (axis negation at -32768).",
         "DESIGN.md section 4 C18"),
 "C15": ("Lean 4 induction over arbitrary interleavings of sends and consumer polls on the broadcast-ring model (any number of producers and networks): order, losslessness under capacity, lag never exits the loop, after a drain exactly the retained suffix (hence the last command) is handled + differential schedules on the real Runtime::schedule_net_service command tasks with held-back handlers",
         "Machine-checked proof of C15_order, C15_lossless_under_capacity, C15_never_exits_on_lag, C15_newest_processed, C15_last_command_handled (ring invariant against the publication history, by induction over schedules); tied to the code by running the real Runtime with recording NetworkService stubs (1-3 networks) and the real CommandSender: bursts 1..64 (thorough 1..200) while handlers are blocked, partial releases, emergency-style 6-command bursts, random schedules; observed per-network on_command order compared with the model.",
         "tokio::sync::broadcast is modelled (ring of capacity QUEUE_SIZE_COMMAND; Lagged moves the cursor to the oldest retained value) and exercised through the real runtime; the schedule fed to the model is the observed one (which receive happened when), values and order are what is checked.",
         "DESIGN.md section 4 C15"),
 "C10": ("Lean 4 theorems over the NetworkAuthority model (per-unit status derivation, change detection, every-tenth-cycle refresh, accepted-message bookkeeping of the receive loop) against an independent reference rule (Spec.C10.truth / mustPublish) + differential histories on the real NetworkAuthority (recv / tick / command clones as in schedule_net_service) over the emulated CAN bus",
         "Machine-checked proof of C10_cycle (each unit in each cycle publishes exactly what the reference rule demands and remembers it), C10_healthy_sound, C10_timeout_faulty, C10_recovers, C10_every_tenth, C10_unheard_silent, C10_publish_on_change, C10_accept_marks, C10_name_example; tied to the code by histories of {frame from the unit, frame from another unit, malformed frame, cycle, real silence longer / shorter than the timeout} for 1-4 units of all eight driver kinds, timeouts absent / 0 ms / 150-400 ms, compared event by event (frames, signals, statuses) and checked against the Spec rule on the implementation's own output.",
         "Time is real in the implementation (Instant::now): the harness waits for real and keeps every wait at least 100 ms away from a deadline; the model clock is a lower bound of the elapsed time (timeout 0 ms is therefore always expired). The order of the receive and tick tasks is the order of the harness's awaits; true parallel interleavings of the two tokio tasks on shared atomics are not exhibited. Status names are compared as strings built by the real J1939Unit::name.",
         "DESIGN.md section 4 C10"),
 "C20": ("Lean 4 theorems over the NetworkAuthority configuration/identity model (NAME bit layout read back by an independent J1939-81 decoder, address claim, request responder as a complete case split, units = known configured entries in order with unwrap_or source address, unknown entries skipped) + differential runs of the real NetworkAuthority::new / clone / setup / recv on the emulated bus, including the shipped contrib/etc/glonax.conf parsed by the real glonax-server config types",
         "Machine-checked proof of C20_name_layout, C20_claim_on_setup, C20_claim_addressing, C20_responder, C20_ignores_others, C20_ignores_other_groups, C20_answers, C20_software_ident, C20_units_exact, C20_source_address, C20_unknown_skipped, C20_units_order, C20_factory_known, C20_setup_addressing; tied to the code by random and boundary NAME field values (including out-of-range ones, which the builder masks), all own addresses, requests for the three answered groups and others with matching / foreign / global destinations and short payloads, driver lists over the 8 known and several unknown (vendor, product) pairs with and without sa override and timeout, construction + clone of each, and the first-cycle set-up frames observed on the bus.",
         "The TimeDate answer's payload is the wall clock and is compared by identifier and length only. TOML parsing (serde/toml) is trusted and exercised only through the shipped file and the harness's generated files. One defect fixed (ECM vendor string), one recorded finding (encoder unit address outside 0x6A..0x6D aborts).",
         "DESIGN.md section 4 C20"),
 "C16": ("Lean 4 invariants over the Runtime task-system model whose scheduling programs (micro-operations of schedule_io_sub/io_pub/net_service and the call order of glonaxd's run()) are REGENERATED from the source on every run: safety (every spawned task is notifiable) by induction over all interleavings of main micro-steps, the request and task polls for any number of networks; termination under fair polling by a rank argument; exactly-once teardown and quiescence by a counting invariant + differential runs of the real Runtime with the request injected at every scheduling point (hook verif_sched), after scheduling, and through a real SIGTERM, with stub services and with the real NetworkAuthority on emulated buses",
         "Machine-checked proof of C16_all_notified, C16_joins_under_fair_polling, C16_exits, C16_teardown_exactly_once, C16_quiescent, C16_all_spawned_partial, C16_glonaxd_tasks, C16_teardown_frames, C16_calls_safe (decided on the regenerated programs), C16_startup_window (the recorded finding, proved as a theorem); tied to the code by the extractor (operation order: subscribe / construct / guard / spawn, and each spawned task's setup-select-teardown shape) and by running the real Runtime on current-thread and multi-thread tokio runtimes with 0-3 networks and the request at every (point, call) pair, idle and mid command burst, directly and via SIGTERM; observed setup / teardown calls per service, join within 4 s, silence afterwards, reset frames per hydraulic unit on the bus.",
         "PARTIAL: 'exits well inside the supervisor's 5 s' is a wall-clock statement; the theorems give termination under fair scheduling (tokio's fairness and the handlers returning are assumed), the 3 s bound is MEASURED on every run. tokio broadcast semantics (a receiver subscribed after a send does not see it; is_empty on main's receiver) are modelled and exercised through the hook. One defect fixed (subscribe after guard in schedule_net_service), one recorded finding (start-up window).",
         "DESIGN.md section 4 C16"),
 "C19": ("Lean 4 theorems (with single Mathlib modules: linarith / nlinarith / field_simp / floor lemmas) over EXACT-rational versions of shortest_rotation, the law-of-cosines argument, linear_motion, Linear::update, ActuatorState::update and the Actor::world_location loop + sampled differential runs of the real f32 helpers whose inputs and outputs travel as bit patterns and are compared, in exact rational arithmetic, with the model (stated tolerances) and with the Spec clauses",
         "Machine-checked proof of C19_shortest_range_congruent (d >= -2P => result in (-P, P] and congruent mod 2P, any P > 0), C19_shortest_guard_needed, C19_triangle_iff, C19_law, C19_deadband_none, C19_profile_saturates, C19_profile_saturates_any_gain, C19_profile_sign, C19_profile_monotone, C19_linear_update, C19_linear_monotone, C19_cast_saturates, C19_stop_once / C19_stop_flag, C19_world_is_product, C19_upTo_prefix, C19_actor_roundtrip (byte level, from C13); tied to the code by dense grids, boundary values (multiples of pi/2 +- 3 ulps, deadband edges, +-0, degenerate triangles), random and non-finite inputs on the real functions: shortest_rotation 6.4k, law_of_cosines 5k, ascending error sweeps for both profiles under contract and extreme gains, ActuatorState histories, segment chains of 1-6 with duplicate / missing names, Actor byte round trip.",
         "PARTIAL BY NATURE: the theorems are about exact real (rational) arithmetic; IEEE-754 rounding, `%`, `acos`, `round`, the casts and nalgebra's products are OUTSIDE them and are tied only by sampling with tolerances (range of shortest_rotation is checked exactly on the f32 output; congruence, the cosine of the returned angle — via a degree-24 Taylor polynomial —, profile values +-1 count, world position relative 2^-20 per chain link). Cases inside a conditioning band of a discontinuity (|cos| ~ 1, wrap points) are counted, not asserted. One defect fixed (i16 negation overflow in linear_motion).",
         "DESIGN.md section 4 C19"),
}
NOT_YET = "check not built yet in this round (planned: Lean model + correspondence, see DESIGN.md section 4)"

# translator ties (DESIGN.md 9.8): structure regenerated from the source text on every run and consumed by a theorem
TIES = {
 "C07": "TRANSLATED model: the match of Governor::next_state is regenerated as a decision table (one row per arm, source order) and C07_translation proves the table, read with first-match semantics, computes the model's nextState for all inputs",
 "C09": "the emergency sequence of command_emergency is regenerated from the source and proved equal to the model's (C09_emergency_sequence_translated)",
 "C01": "the arms of trigger/tick, where the shared context is written and what tick re-asserts are regenerated from hydraulic.rs and tied by C01_driver_shape_translated",
 "C02": "the dispatch of motion variants to emitters is regenerated from hydraulic.rs (C02_dispatch_translated)",
 "C08": "the arms of trigger/tick, the payload template of speed_control, the normalise-store-govern order and tick's use of the stored command are regenerated from volvo_ems.rs (C08_driver_shape_translated, volvoFrame_template)",
 "C11": "the parse tables of every unit driver (arm per parameter group, which arms refuse foreign senders, destination guard) are regenerated and tied by C11_parse_tables_as_modelled / C11_credited_only_through_guarded_arms",
 "C10": "C10_heard_only_from_own_address rests on the regenerated parse tables of C11",
 "C06": "C06_receive_paths_as_modelled: regenerated parse tables (C11) and responder arms (C20); C06_responder_total",
 "C20": "the arms and the own-address guard of the request responder are regenerated from authority.rs (C20_served_requests_as_modelled, C20_answers_only_served)",
 "C04": "the arms of UnixServer::parse and the shape of the session loop (ending error kinds, no return before the fail-safe block, the block itself, initial registration) are regenerated from server.rs (C04_parse_arms_as_modelled, C04_session_loop_as_modelled)",
 "C03": "C03_failsafe_path_as_modelled over the regenerated session-loop shape",
 "C05": "C05_session_shape_as_modelled over the regenerated parse arms and session-loop shape",
 "C15": "the three arms of the command task and the point where its receiver is subscribed are regenerated from runtime/mod.rs (C15_command_task_as_modelled); the stated capacity is pinned over the regenerated constant (C15_capacity_as_stated)",
 "C14": "client half of the handshake: model clientFlags + C14_client_asks_for_streaming_iff_option, tied through real sockets",
 "C18": "TRANSLATED model: InputState::try_from is regenerated as a table (one row per arm) and C18_translation proves the table computes St.step for all states and scancodes; client half of the handshake: C18_failsafe_session_registered, tied through real sockets and the real glonax-input binary",
 "C17": "TRANSLATED: the ordered checks of FilterItem::matches are regenerated and C17_filter_translated proves they compute the model's itemMatches for all entries and identifiers; Filter::matches / push recognised as shapes; every with_* / set_* of an entry and Filter::default recognised (C17_entries_as_constructed)",
 "C13": "TRANSLATED: the ordered checks of Frame::try_from are regenerated and C13_header_translation proves they compute the model's parseHeader for all byte strings",
}
for k, v in TIES.items():
    t = CLAIMED[k]
    CLAIMED[k] = (t[0] + " + translator tie: " + v, t[1], t[2], t[3])

checks, na = [], []
for p in props:
    i = p["id"]
    if i in CLAIMED:
        tech, text, note, ref = CLAIMED[i]
        checks.append({
            "property_id": i,
            "quick_cmd": f"./check {i} --tier quick",
            "thorough_cmd": f"./check {i} --tier thorough",
            "evidence_file": f"evidence/{i}.json",
            "replay_cmd_template": f"./check {i} --replay {{path}}",
            "engine": "lean4-model+correspondence",
            "level_claimed": {"category": "proof", "text": text, "design_ref": ref},
            "level_note": note,
            "technique": tech,
        })
    else:
        na.append({"property_id": i, "reason": NOT_YET})
m = {
 "version": 1,
 "setup_cmd": "./setup",
 "hooks": {
  "guard": "cargo feature `verif` of crate glonax (glonax-runtime)",
  "enable": "the harness depends on glonax with features=[\"verif\"]; real binaries: cargo build --features glonax/verif",
  "baseline_off_cmd": "cd /repo && cargo test --workspace --no-fail-fast --offline",
  "source_commits": ["3918635", "6cbc8b2", "2c3a3ba", "580b2bb"],
  "add_only": True,
 },
 "engines": [{
  "name": "lean4-model+correspondence",
  "path": "check",
  "serves_properties": [c["property_id"] for c in checks],
  "kind_free_text": "Lean 4 theorems about a hand-written executable model (lean/GlonaxModel), constants, decision tables and structural facts (match arms, guards, context writes, loop exits) regenerated from /repo's source text by the translator tools/extract.py and consumed by `*_translated` / `*_as_modelled` theorems, model tied to the code by a differential correspondence harness (harness/, real code in-process) whose cases the compiled Lean driver replays; Spec predicates are evaluated on the implementation's output",
 }],
 "checks": checks,
 "not_applicable": na,
 "notes": "See DESIGN.md. KNOWN_FINDINGS.txt lists recorded findings and fixed defects.",
}
json.dump(m, open(os.path.join(V, "MANIFEST.json"), "w"), indent=1)
print("MANIFEST.json:", len(checks), "claimed,", len(na), "not_applicable")
